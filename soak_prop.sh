#!/bin/sh
# usage: soak_prop.sh <PROP> <first seed> <last seed> [tier]   -- one check under many seeds
p=$1; tier=${4:-quick}
for s in $(seq $2 $3); do
  out=$(VERIF_SEED=$s ./check $p --tier $tier 2>&1)
  rc=$?
  echo "seed=$s prop=$p rc=$rc $(echo "$out" | grep -E 'VIOLATION|HARNESS|done' | tr '\n' ' ' | cut -c1-600)"
done
