#!/bin/sh
# usage: soak.sh <first seed> <last seed> [tier]   -- runs every check per seed, prints a summary line each
tier=${3:-quick}
for s in $(seq $1 $2); do
  for p in C11 C12 C15 C16; do
    out=$(VERIF_SEED=$s ./check $p --tier $tier 2>&1)
    rc=$?
    echo "seed=$s prop=$p rc=$rc $(echo "$out" | grep -E 'VIOLATION|HARNESS|done' | tr '\n' ' ' | cut -c1-600)"
  done
done
