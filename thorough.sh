#!/bin/sh
# runs the thorough tier of the given checks (default all) with the given seed
seed=${1:-0}; shift
for p in ${@:-C11 C16 C12 C15}; do
  out=$(VERIF_SEED=$seed ./check $p --tier thorough 2>&1); rc=$?
  echo "seed=$seed prop=$p rc=$rc $(echo "$out" | grep -E 'VIOLATION|HARNESS|done' | tr '\n' ' ' | cut -c1-800)"
done
