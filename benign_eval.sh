#!/bin/sh
# usage: benign_eval.sh <worktree> <k> <PROP>...   -- applies benign/<k>/patch.diff in the worktree and runs quick checks; all must exit 0
wt=$1; k=$2; shift 2
cd $wt || exit 9
git checkout -q -- parglare
git apply --check benign/$k/patch.diff || { echo "PATCH DOES NOT APPLY"; exit 9; }
git apply benign/$k/patch.diff
cd /verif
for prop in "$@"; do
  PARGLARE_SRC=$wt PGSIM_EVIDENCE_DIR=/dev/shm/pgsim-benign-ev PGSIM_REPLAY_DIR=/dev/shm/pgsim-benign-rp ./check $prop --tier quick > /tmp/benign_out.txt 2>&1
  rc=$?
  echo "benign $(basename $wt)/$k $prop quick: exit=$rc $(grep -E 'VIOLATION|HARNESS|done' /tmp/benign_out.txt | tr '\n' ' ' | cut -c1-300)"
done
cd $wt && git checkout -q -- parglare
