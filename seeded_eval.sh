#!/bin/sh
# usage: seeded_eval.sh <worktree> <k> <PROP> [check args...]
# Confirms a sub-agent's seeded change (demo fails with / passes without, tests pass with) in its
# scratch worktree and runs a check against the worktree with the change applied (PARGLARE_SRC).
wt=$1; k=$2; prop=$3; shift 3
cd $wt || exit 9
git checkout -q -- parglare
git apply --check seeded/$k/patch.diff || { echo "PATCH DOES NOT APPLY"; exit 9; }
PYTHONPATH=$wt timeout 600 /venv/bin/python seeded/$k/demo.py >/dev/null 2>&1; echo "demo without change: rc=$?"
git apply seeded/$k/patch.diff
PYTHONPATH=$wt timeout 600 /venv/bin/python seeded/$k/demo.py >/dev/null 2>&1; echo "demo with change: rc=$?"
if [ -z "$SKIP_TESTS" ]; then
  PYTHONPATH=$wt timeout 1500 /venv/bin/python -m pytest -q -p no:cacheprovider --timeout=900 2>&1 | tail -1
  git status --short | grep -v "^??" | grep -v parglare/ | awk '{print $2}' | xargs -r git checkout -q --
fi
cd /verif
PARGLARE_SRC=$wt PGSIM_EVIDENCE_DIR=/dev/shm/pgsim-seeded-ev PGSIM_REPLAY_DIR=/dev/shm/pgsim-seeded-rp ./check $prop "$@" 2>&1 | grep -E "VIOLATION|^#   |done|HARNESS" | cut -c1-400
echo "check rc=$?"
cd $wt && git checkout -q -- parglare
