#!/bin/sh
# everything that guards the machinery itself; each line prints its own verdicts
./check selftest harness; echo "== harness rc=$?"
./check selftest determinism --runs 300 | grep -v "^determinism .*{"; echo "== determinism rc=$?"
./check selftest sensitivity | grep "^sensitivity"; echo "== sensitivity done"
./check selftest seeded | grep "^seeded"; echo "== seeded done"
./check selftest benign | grep "^benign"; echo "== benign done"
