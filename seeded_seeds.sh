#!/bin/sh
# usage: seeded_seeds.sh <seed>...   -- runs ./check selftest seeded under other VERIF_SEED values
for s in "$@"; do
  echo "== VERIF_SEED=$s"
  VERIF_SEED=$s ./check selftest seeded | grep "^seeded" | sed "s/^/seed=$s /"
done
