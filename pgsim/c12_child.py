"""A simulated process of the C12 simulator that is a FRESH interpreter (its
PYTHONHASHSEED is chosen by the simulator): a cache may have been written by a
process with another string-hash seed.

usage: c12_child.py <args.json>   (prints the canonical JSON result)
"""

import json
import os
import sys

sys.path.insert(0, os.path.dirname(os.path.dirname(os.path.abspath(__file__))))

from pgsim import core  # noqa: E402


def main():
    with open(sys.argv[1]) as f:
        a = json.load(f)
    core.import_parglare()
    from pgsim import c12_cache as c12

    dn = os.open(os.devnull, os.O_WRONLY)
    out_fd = os.dup(1)
    os.dup2(dn, 1)
    os.dup2(dn, 2)
    if a["op"] == "construct":
        res = c12.child_construct(a["root"], a["cfg"], a["recs"], a["probes"], a["fault"],
                                  a["now_ns"])
    else:
        res = c12.child_compile(a["root"], a["ps"], a["pse"], a["fault"], a["now_ns"])
    os.write(out_fd, core.canon({"r": res}).encode())


if __name__ == "__main__":
    main()
