"""C12 check orchestration: known findings, crash-offset sweep, seeded
histories, round trip, minimisation, evidence."""

import json
import os
import shutil
import time

from . import c12_cache as c12
from . import core, pool
from .core import Stats

PROP = "C12"
RUNS = {"quick": 1600, "thorough": 40000}
RT_ITEMS = {"quick": 200, "thorough": 3000}


def _init():
    c12.ctx()


def check(tier, vseed, args):
    runs = args.runs or RUNS[tier]
    first = args.first or 0
    violations, known_lines, harness = [], [], []
    stats = Stats()
    time.monotonic()

    # 1. known findings: canonical histories
    kf_info = []
    for kf in core.load_known_findings():
        if kf["property"] != PROP:
            continue
        with open(os.path.join(core.VERIF_DIR, kf["replay"])) as f:
            rp = json.load(f)
        _, divs, _ = c12.run_history(rp["spec"], json.loads(json.dumps(rp["ops"])))
        still = [d for d in divs if d["attributed"] == kf["id"]]
        other = [d for d in divs if not d["attributed"]]
        kf_info.append({"id": kf["id"], "status": kf["status"], "still_fails": bool(still),
                        "unattributed": len(other)})
        if kf["status"] == "open":
            if still:
                known_lines.append(
                    f"KNOWN-FINDING: property={PROP} id={kf['id']} {kf['summary']}")
            if other:
                violations.append(_report(rp["spec"], rp["ops"], other[0], vseed,
                                          f"known-{kf['id']}", tier, minimise=False))
        else:  # fixed: regression replay must pass
            if divs:
                violations.append(_report(rp["spec"], rp["ops"], divs[0], vseed,
                                          f"regress-{kf['id']}", tier, minimise=False))

    # 2. exhaustive crash-offset sweep
    sweep_cov = {}
    if not args.no_sweep:
        jobs = c12.sweep_jobs(tier)
        fault_kinds = ["crash", "enospc"] if tier == "thorough" else ["crash"]
        alljobs = [(j, k) for k in fault_kinds for j in jobs]

        def do(i):
            job, kind = alljobs[i]
            return c12.sweep_one(job, kind)

        res = core.run_pool(do, range(len(alljobs)), init_fn=_init, fini_fn=cleanup)
        nfired = 0
        for i in range(len(alljobs)):
            r = res[i]
            if "harness" in r or "harness_timeout" in r:
                harness.append(str(r))
                continue
            stats.merge(r["stats"])
            job, kind = alljobs[i]
            key = f"{job[0]}/{job[2]['kind']}/{job[3]}/{kind}"
            sc = sweep_cov.setdefault(key, {"offsets": 0, "fired": 0, "bad": 0})
            sc["offsets"] += 1
            if r["fired"]:
                sc["fired"] += 1
                nfired += 1
            if r["bad"]:
                sc["bad"] += 1
                if len(violations) < 3:
                    violations.append(_report(job[1], r["ops"], r["bad"][0], vseed,
                                              f"sweep{i}", tier))
        stats.inc("sweep.jobs", len(alljobs))
        stats.inc("sweep.fired", nfired)

    # 3. seeded histories
    def do_run(idx):
        return c12.one_run(vseed, idx, tier)

    res = core.run_pool(do_run, range(first, first + runs), init_fn=_init, fini_fn=cleanup)
    digests, opseqs, samples = [], set(), []
    sits = set()
    simtime = 0
    nops = 0
    kf_hits = 0
    meta_counts = Stats()
    bad_runs = []
    for idx in range(first, first + runs):
        r = res[idx]
        if "harness" in r or "harness_timeout" in r:
            harness.append(f"run {idx}: {r}")
            continue
        stats.merge(r["stats"])
        digests.append([idx, r["digest"]])
        opseqs.add(r["opseq"])
        simtime += r["simtime"]
        nops += r["nops"]
        if r["kf"]:
            kf_hits += 1
        for k in ("single", "faults_on", "imports"):
            meta_counts.inc(f"{k}={r['meta'][k]}")
        meta_counts.inc("family=" + r["meta"]["family"])
        if "sample" in r and len(samples) < 4:
            samples.append({"run": idx, **r["sample"]})
        if r["violation"]:
            bad_runs.append((idx, r["violation"]))
    for idx, v in bad_runs[:3]:
        violations.append(_report(v["spec"], v["ops"], v["divergence"], vseed, idx, tier))
    for k in stats.c:
        if k.startswith("sit."):
            sits.add(k)

    # 4. round trip
    rt = roundtrip(tier, vseed, violations, harness)

    cleanup()
    ff = stats.group("fault_fired.")
    evidence = {
        "property_id": PROP,
        "level": "fault_enumeration",
        "coverage": {
            "evaluations": runs + stats.c.get("sweep.jobs", 0) + rt["items"],
            "runs": runs,
            "distinct_nontrivial": len(opseqs),
            "rule": ("seeded histories of {construct Parser/GLRParser with option variants, "
                     "pglr compile, edit root/imported grammar, touch, future-date, delete cache, "
                     "edit .pge} over one simulated grammar directory with crash / ENOSPC / EIO / "
                     "EPERM injected at the cache-write seam, compared op by op with a cold build "
                     "in a pristine process; distinct_nontrivial = number of distinct sequences of "
                     "(op, abstract cache situation before it, fault fired) over the seeded runs "
                     "(all contain at least two operations and end in a probing construct); plus an "
                     "exhaustive sweep over every character offset of the .pgc/.pgec writes of the "
                     "sweep scenarios, plus save/load/save round trips"),
            "samples": samples,
            "seeds": {"VERIF_SEED": vseed, "first_run": first, "runs": runs,
                      "derivation": "sha256(VERIF_SEED/C12/run_index)"},
            "simulated_time_s": simtime,
            "operations": nops,
            "faults_fired": ff,
            "faults_planned_not_fired": stats.c.get("fault_not_fired", 0),
            "io_errors_surfaced_as_oserror": stats.c.get("io_error_surfaced", 0),
            "ops_equal_to_cold": stats.c.get("ops_equal_to_cold", 0),
            "divergences_attributed_to_known_findings": stats.c.get("div.attributed", 0),
            "runs_touching_known_findings": kf_hits,
            "divergences_unattributed": stats.c.get("div.unattributed", 0),
            "distinct_situation_op_fault_triples": len(sits),
            "situation_counts": stats.group("sit."),
            "simulated_processes_in_fresh_interpreters_with_other_hash_seed": stats.c.get(
                "fresh_interpreter_processes", 0),
            "cache_writes_seen_through_seam": stats.c.get("writes_seen", 0),
            "cache_writes_not_seen_through_seam": stats.c.get("writes_unseen", 0),
            "crash_sweep": sweep_cov,
            "crash_sweep_exhaustive": not args.no_sweep,
            "round_trip": rt,
            "workload_mix": meta_counts.as_dict(),
            "known_findings": kf_info,
            "batch_digest": core.digest(digests),
            "real_vs_stub": {
                "real": ["parglare grammar parser, table builder, tables/persist.py, Parser, "
                         "GLRParser, _custom_error_hints, cli.compile_get_grammar_table, tmpfs files"],
                "simulated": ["mtime clock (os.utime after every op)", "write path "
                              "(builtins.open/io.open proxy)", "process death (os._exit in child)"],
                "bypassed": ["click argument parsing of pglr"],
            },
        },
        "assumptions": [
            "cache writes go through builtins.open/io.open (writes_not_seen counts exceptions)",
            "mtimes of distinct events are distinct (clock ticks between all ops)",
            "the cold build in a fresh directory is the meaning of 'no cache'",
        ],
    }
    return {"violations": violations, "known": known_lines, "evidence": evidence,
            "harness_problems": harness}


def cleanup():
    if c12._ctx is not None:
        c12._ctx.close()
        c12._ctx = None


def _report(spec, ops, div, vseed, idx, tier, minimise=True):
    from .main import confirm_replay

    budget = 60 if tier == "quick" else 300
    rp = {"property": PROP, "seed": vseed, "run": idx, "spec": spec, "ops": ops,
          "divergence": div, "minimised": False,
          "how": "check replay <this file>; ops are explicit, offsets resolved"}
    if minimise:
        try:
            m = c12.minimise(spec, ops, budget)
        except core.HarnessError:
            m = None
        if m:
            rp.update(spec=m["spec"], ops=m["ops"], divergence=m["divergence"],
                      minimised=m["minimised"])
    path = core.replay_path(PROP, vseed, idx)
    core.write_json(path, rp)
    ok = confirm_replay(path)
    d = rp["divergence"]
    return {"replay": path, "confirmed": ok,
            "summary": f"op#{d['i']} {d['op']} field={d['field']} situation={d['sit']} "
                       f"nops={len(rp['ops'])} replay_confirmed={ok}"}


# ----------------------------------------------------------------------------


def rt_items(tier, vseed):
    rng = core.rng_for(vseed, PROP, "roundtrip")
    n = RT_ITEMS[tier]
    items = []
    fams = list(pool.FAMILIES)
    while len(items) < n:
        sc = pool.make_scenario(rng, fams)
        for v, text in enumerate(sc["texts"]):
            topts = {}
            for k in ("prefer_shifts", "prefer_shifts_over_empty"):
                topts[k] = rng.random() < 0.5
            topts["tables"] = rng.choice(["LALR", "SLR"])
            ld = rng.choice([None, True, False])
            if ld is not None:
                topts["lexical_disambiguation"] = ld
            items.append((text, sc["recognizers"][v], topts))
            if len(items) % 7 == 0:
                # grammars split over files (fqn-qualified symbol names in the table)
                isc = pool.import_samename_scenario(rng) if rng.random() < 0.5 else None
                files = isc["files"] if isc else rng.choice(pool.import_scenario(rng)["versions"])
                items.append(({"files": files}, None, topts))
    items = items[:n]
    # every stand-alone grammar file of the repository (the heavy ones only in thorough)
    import glob

    base = core.PARGLARE_SRC if os.path.isdir(os.path.join(core.PARGLARE_SRC, "tests")) else "/repo"
    files = sorted(glob.glob(os.path.join(base, "tests", "**", "*.pg"), recursive=True)
                   + glob.glob(os.path.join(base, "examples", "**", "*.pg"), recursive=True))
    heavy = ("java16.pg", "perf/test3/g.pg", "examples/c/c.pg", "examples/c/c2.pg")
    for f in files:
        if f.endswith(heavy) and (tier == "quick" or f.endswith(heavy[:2])):
            continue
        items.append(({"file": f}, None, {"tables": "LALR", "prefer_shifts": False,
                                          "prefer_shifts_over_empty": False}))
    return items


def roundtrip(tier, vseed, violations, harness):
    items = rt_items(tier, vseed)
    base = os.path.join(core.SHM, f"pgsim-c12rt-{os.getpid()}")
    os.makedirs(base, exist_ok=True)

    def do(i):
        text, recs, topts = items[i]
        d = os.path.join(base, f"rt{i}")
        os.makedirs(d, exist_ok=True)
        try:
            return core.call_or_raise(c12.child_roundtrip, text, recs, topts, d)
        finally:
            shutil.rmtree(d, ignore_errors=True)

    try:
        res = core.run_pool(do, range(len(items)))
    finally:
        shutil.rmtree(base, ignore_errors=True)
    ok = skipped = bad = 0
    shas = set()
    with_conf = 0
    for i in range(len(items)):
        r = res[i]
        if "harness" in r or "harness_timeout" in r:
            harness.append(f"roundtrip {i}: {r}")
            continue
        if "skip" in r:
            skipped += 1
            continue
        shas.add(r["sha"])
        if r["conflicts"] != [0, 0]:
            with_conf += 1
        if r["bad"]:
            bad += 1
            if bad <= 2:
                text, recs, topts = items[i]
                path = core.replay_path(PROP, vseed, f"rt{i}")
                core.write_json(path, {"property": PROP, "kind": "roundtrip", "text": text,
                                       "recognizers": recs, "topts": topts, "bad": r["bad"]})
                violations.append({"replay": path,
                                   "summary": f"round trip differs in {r['bad']}"})
        else:
            ok += 1
    return {"items": len(items), "ok": ok, "skipped_grammar_rejected": skipped, "bad": bad,
            "distinct_tables": len(shas), "tables_with_conflicts": with_conf}


def replay(rp):
    if rp.get("kind") == "roundtrip":
        d = os.path.join(core.SHM, f"pgsim-c12rt-replay-{os.getpid()}")
        os.makedirs(d, exist_ok=True)
        try:
            r = core.call_or_raise(c12.child_roundtrip, rp["text"], rp["recognizers"],
                                   rp["topts"], d)
        finally:
            shutil.rmtree(d, ignore_errors=True)
        return bool(r.get("bad")), r
    ops = json.loads(json.dumps(rp["ops"]))
    _, divs, _ = c12.run_history(rp["spec"], ops)
    cleanup()
    bad = [d for d in divs if not d["attributed"]]
    return bool(bad), {"unattributed_divergences": bad[:3],
                       "attributed_to_known_findings": [[d["i"], d["attributed"]] for d in divs
                                                        if d["attributed"]]}
