"""C15 check orchestration."""

from . import c15_reuse as c15
from . import core
from .core import Stats

PROP = "C15"
RUNS = {"quick": 12000, "thorough": 160000}


def check(tier, vseed, args):
    runs = args.runs or RUNS[tier]
    first = args.first or 0
    violations, harness = [], []
    stats = Stats()

    # known findings: fixed entries are regression replays that must pass
    import json
    import os

    kf_info = []
    known = []
    for kf in core.load_known_findings():
        if kf["property"] != PROP:
            continue
        with open(os.path.join(core.VERIF_DIR, kf["replay"])) as f:
            rp = json.load(f)
        divs = c15.failing(rp["spec"], rp["ops"])
        kf_info.append({"id": kf["id"], "status": kf["status"], "still_fails": bool(divs)})
        if divs and kf["status"] == "open":
            known.append(f"KNOWN-FINDING: property={PROP} id={kf['id']} {kf['summary']}")
        elif divs:
            path = core.replay_path(PROP, vseed, f"regress-{kf['id']}")
            core.write_json(path, dict(rp, divergence=divs[0]))
            violations.append({"replay": path, "summary": f"fixed finding {kf['id']} is back"})

    def do_run(idx):
        return c15.one_run(vseed, idx, tier)

    res = core.run_pool(do_run, range(first, first + runs))
    digests, opseqs, samples, bad = [], set(), [], []
    nops = 0
    fam = Stats()
    for idx in range(first, first + runs):
        r = res[idx]
        if "harness" in r or "harness_timeout" in r:
            harness.append(f"run {idx}: {r}")
            continue
        stats.merge(r["stats"])
        digests.append([idx, r["digest"]])
        opseqs.add(r["opseq"])
        nops += r["nops"]
        fam.inc(r["meta"]["family"])
        if "sample" in r and len(samples) < 3:
            samples.append({"run": idx, **r["sample"]})
        if r["violation"]:
            bad.append((idx, r["violation"]))
    for idx, v in bad[:3]:
        violations.append(_report(v["spec"], v["ops"], v["divergence"], vseed, idx, tier))
    pairs = stats.group("pair.")
    evidence = {
        "property_id": PROP,
        "level": "exploration",
        "coverage": {
            "evaluations": runs,
            "runs": runs,
            "distinct_nontrivial": len(opseqs),
            "rule": ("seeded histories (3..12 ops quick, 3..24 thorough) over {build Grammar, failing "
                     "Grammar.from_string, build Parser/GLRParser with option/recovery/filter variants "
                     "(may fail with conflicts), parse sentence / damaged sentence, parse cut short by an "
                     "exception injected at the k-th invocation of a callback seam} on shared objects in "
                     "one simulated process; every build and un-faulted parse is compared with the same "
                     "single operation on fresh objects in a pristine process; distinct_nontrivial = "
                     "distinct sequences of (op, abstract instance state after it) -- every history "
                     "contains at least one build and one probe parse"),
            "samples": samples,
            "seeds": {"VERIF_SEED": vseed, "first_run": first, "runs": runs,
                      "derivation": "sha256(VERIF_SEED/C15/run_index)"},
            "operations": nops,
            "probes_compared": stats.c.get("probes", 0),
            "faults_fired": stats.group("fault_fired."),
            "faults_planned_not_fired": stats.c.get("fault_not_fired", 0),
            "builds": stats.group("build."),
            "distinct_state_op_pairs": len(pairs),
            "state_op_pairs": pairs,
            "skipped_step_budget": stats.c.get("skipped_step_budget", 0),
            "divergences": stats.c.get("div", 0),
            "families": fam.as_dict(),
            "oracle_queries_memoised": "per worker; see runs_per_hour",
            "batch_digest": core.digest(digests),
            "real_vs_stub": {
                "real": ["all of parglare: grammar-of-grammars parser (module global), Grammar, table "
                         "builder, Parser, GLRParser, forests, call_actions"],
                "simulated": ["user callbacks (recognizers, custom_token_recognition, actions, dynamic "
                              "filter, recovery strategy) with injected exceptions", "process isolation "
                              "(fork of a pristine zygote)"],
                "bypassed": [],
            },
        },
        "assumptions": [
            "all parsers of one Grammar object get equivalent action tables (the property says 'same actions')",
            "histories are sequential (no threads, no re-entrancy)",
        ],
    }
    evidence["coverage"]["known_findings"] = kf_info
    return {"violations": violations, "known": known, "evidence": evidence,
            "harness_problems": harness}


def _report(spec, ops, div, vseed, idx, tier):
    from .main import confirm_replay

    budget = 60 if tier == "quick" else 300
    rp = {"property": PROP, "seed": vseed, "run": idx, "spec": spec, "ops": ops,
          "divergence": div, "minimised": False}
    try:
        m = c15.minimise(spec, ops, budget)
    except core.HarnessError:
        m = None
    if m:
        rp.update(spec=m["spec"], ops=m["ops"], divergence=m["divergence"],
                  minimised=m["minimised"])
    path = core.replay_path(PROP, vseed, idx)
    core.write_json(path, rp)
    ok = confirm_replay(path)
    d = rp["divergence"]
    return {"replay": path, "confirmed": ok,
            "summary": f"op#{d['i']} {d['op']} differs from fresh objects; nops={len(rp['ops'])} "
                       f"replay_confirmed={ok}"}


def replay(rp):
    divs = c15.failing(rp["spec"], rp["ops"])
    return bool(divs), {"divergences": divs[:3]}
