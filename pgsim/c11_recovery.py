"""C11 -- error recovery terminates, reports disjoint spans and parses the rest.

The simulator owns the two parts of the parser's environment that matter here:
the stream being read (damaged at seeded points like a lossy / duplicating /
reordering / corrupting / truncating channel) and the recovery strategy (a
second party called back mid-parse whose decisions come from its own PRNG).
Termination is judged by the step clock, never by wall time.
See DESIGN.md section 7.
"""

import json
import re
import time

from . import peers, pool
from .core import (
    Stats,
    StepBudgetExceeded,
    StepClock,
    call_or_raise,
    ddmin,
    digest,
    rng_for,
)
from .outcome import build_kwargs, exc_outcome, forest_outcome

PROP = "C11"
WS = "\n\r\t "
PARSES_PER_RUN = 12
BASE_BUDGET = 1_500_000


# ----------------------------------------------------------------------------
# inside simulated processes


def _leaves(node, out):
    """Collect terminal leaves (start, end, value) of a tree in order and check
    the derivation structure.  Returns list of structural problems."""
    probs = []
    stack = [node]
    while stack:
        n = stack.pop()
        if n.is_term():
            out.append((n.start_position, n.end_position, n.value,
                        getattr(n, "layout_content", "") or ""))
            continue
        kids = list(n.children if hasattr(n, "children") and n.children is not None else list(n))
        prod = n.production
        rhs = [s.fqn for s in list.__iter__(prod.rhs) if s.name != "EMPTY"]
        ksyms = [k.symbol.fqn for k in kids]
        if rhs != ksyms:
            probs.append(f"node {prod.symbol.fqn}: children {ksyms} != rhs {rhs}")
        for k in reversed(kids):
            stack.append(k)
    return probs


def check_tree(tree, text, start_fqn, consume, allow_injected=False):
    """Structural derivation check against the grammar object + leaf discipline.
    allow_injected: zero-length leaves may carry any value (tokens injected by a
    custom strategy occupy no input)."""
    leaves = []
    probs = _leaves(tree, leaves)
    root = tree.production.symbol.fqn if tree.is_nonterm() else tree.symbol.fqn
    if root != start_fqn:
        probs.append(f"root is {root}, start symbol is {start_fqn}")
    pos = 0
    for s, e, v, _lc in leaves:
        if not (isinstance(s, int) and isinstance(e, int) and 0 <= s <= e <= len(text)):
            probs.append(f"leaf span out of bounds [{s},{e}]")
            continue
        if text[s:e] != v and not (allow_injected and s == e):
            probs.append(f"leaf value {v!r} != input[{s}:{e}] {text[s:e]!r}")
        if s < pos:
            probs.append(f"leaf [{s},{e}] overlaps/precedes previous leaf ending at {pos}")
        pos = max(pos, e)
    return probs, leaves


def check_spans(spans, n):
    probs = []
    prev_end = 0
    prev_start = 0
    for s, e in spans:
        if not (isinstance(s, int) and isinstance(e, int)):
            probs.append(f"span [{s},{e}] not integer")
            continue
        if not (0 <= s <= e <= n):
            probs.append(f"span [{s},{e}] out of bounds or start>end (len {n})")
        if s < prev_start:
            probs.append(f"span [{s},{e}] not ordered after start {prev_start}")
        if s < prev_end:
            probs.append(f"span [{s},{e}] overlaps previous span ending at {prev_end}")
        prev_end = max(prev_end, e)
        prev_start = s
    return probs


LAYOUT_RE = re.compile(r"(?:\s+|//[^\n]*|/\*[^*]*\*/)*")


def check_conservation(text, leaves, spans, ws, layout="ws"):
    """Every non-layout character lies in exactly one leaf or exactly one span.
    layout 'ws': layout = the ws characters.  layout 'comments' (LAYOUT rule of
    the pool: whitespace, // and /* */ comments): every maximal stretch of input
    covered by no leaf and no span must be a string of the layout language."""
    cover = [0] * len(text)
    for s, e, _, _lc in leaves:
        for i in range(s, min(e, len(text))):
            cover[i] += 1
    for s, e in spans:
        for i in range(s, min(e, len(text))):
            cover[i] += 1
    probs = []
    lay = [False] * len(text)
    if layout in ("comments", "nested"):
        i = 0
        while i < len(text):
            if cover[i]:
                i += 1
                continue
            j = i
            while j < len(text) and not cover[j]:
                j += 1
            ok = (LAYOUT_RE.fullmatch(text, i, j) if layout == "comments"
                  else pool.is_nested_layout(text[i:j]))
            if ok:
                for k in range(i, j):
                    lay[k] = True
            i = j
    for i, c in enumerate(text):
        if c in ws or lay[i]:
            continue
        if cover[i] != 1:
            probs.append(f"char {i} {c!r} covered {cover[i]} times (leaves+spans)")
            if len(probs) > 3:
                break
    return probs


def _ws_of(cfg):
    """The layout characters of a configuration (ws option; default parglare's)."""
    if "ws" in cfg["opts"]:
        return cfg["opts"]["ws"] or ""
    return WS


def _mk(g, table, cfg, recovery):
    from parglare import GLRParser, Parser

    cls = Parser if cfg["kind"] == "lr" else GLRParser
    kw = build_kwargs(cfg["opts"])
    if cfg["kind"] == "lr":
        kw["build_tree"] = True
    if recovery is not None:
        kw["error_recovery"] = recovery
    if cfg.get("ctr"):
        kw["custom_token_recognition"] = peers.custom_token_recognition
    f = peers.make_filter(cfg.get("filter"))
    if f:
        kw["dynamic_filter"] = f
    if table is None:
        # the parser builds its own table: construction-time defaults that depend on
        # the other arguments (recovery included) are in play
        return cls(g, **kw)
    for k in ("tables", "prefer_shifts", "prefer_shifts_over_empty"):
        kw.pop(k, None)
    return cls(g, table=table, **kw)


class Mon:
    """Observer of one parser instance's recovery activity (per-job state is
    reset by begin): which heads were recovered from where to where for which
    error, the last error handed to a strategy, recovery activity on the step
    clock."""

    def __init__(self, clock, mode):
        self.clock = clock
        self.mode = mode
        self.peer = peers.make_recovery(mode)
        self.p = None
        self.events, self.act, self.last_err = {}, {"in": False, "last": 0}, []

    def strategy(self):
        if isinstance(self.peer, peers.RecoveryPeer):
            return self._call
        return self.peer

    def attach(self, p):
        self.p = p
        if self.peer is True:
            orig = p.default_error_recovery

            def default_wrapper(head, _orig=orig):
                pos0 = head.position
                self.act["in"], self.act["last"] = True, self.clock.ticks
                r = _orig(head)
                self.act["in"] = False
                self.events.setdefault(len(self.p.errors) - 1, []).append(
                    (pos0, head.position, bool(r)))
                return r

            # instance attribute: the bool (built-in default) path is kept
            p.default_error_recovery = default_wrapper

    def begin(self, seed):
        self.events.clear()
        self.last_err.clear()
        self.act.update({"in": False, "last": 0})
        if isinstance(self.peer, peers.RecoveryPeer):
            self.peer.begin(seed)

    def _call(self, head, error, default):
        pos0 = head.position
        self.last_err[:] = [error]
        self.act["in"], self.act["last"] = True, self.clock.ticks
        r = self.peer(head, error, default)
        self.act["in"] = False
        if head.position < pos0:
            raise AssertionError("peer moved backwards")
        self.events.setdefault(len(self.p.errors) - 1, []).append(
            (pos0, head.position, bool(r)))
        return r


def child_parses(spec, jobs):
    """spec: grammar text, recs; jobs: list of parse jobs.  Returns reports."""
    from parglare import GLRParser, Grammar, Parser
    from parglare.exceptions import DisambiguationError, LoopError
    from parglare.exceptions import SyntaxError as PSyntaxError

    g = Grammar.from_string(spec["text"], recognizers=peers.wrap_recognizers(spec.get("recs")))
    start_fqn = g.start_symbol.fqn
    tables = {}
    parsers = {}
    base_parsers = {}
    clock = StepClock().start()
    reports = []
    try:
        for job in jobs:
            cfg = job["cfg"]
            tkey = json.dumps(cfg, sort_keys=True)
            if tkey not in tables:
                clock.reset()
                try:
                    cls = Parser if cfg["kind"] == "lr" else GLRParser
                    kw = build_kwargs(cfg["opts"])
                    f = peers.make_filter(cfg.get("filter"))
                    if f:
                        kw["dynamic_filter"] = f
                    tables[tkey] = cls(g, **kw).table
                except Exception as e:
                    tables[tkey] = exc_outcome(e)
            table = tables[tkey]
            if isinstance(table, dict):
                reports.append({"skip": "build", "build": table})
                continue
            text = job["input"]
            rep = {"probs": [], "kind": cfg["kind"], "mode": job["recovery"]}
            # T0: the same parser without recovery on the undamaged sentence
            peers.SEAM.reset(None)
            own = bool(job.get("own_table"))
            p0 = base_parsers.get((tkey, own)) if spec.get("reuse") else None
            if p0 is None:
                clock.reset()
                p0 = base_parsers[(tkey, own)] = _mk(g, None if own else table, cfg, None)
            clock.reset(BASE_BUDGET)
            try:
                try:
                    p0.parse(job["clean"])
                except StepBudgetExceeded:
                    raise
                except Exception:
                    pass
                if clock.exceeded:  # the injected exception may surface as another type
                    raise StepBudgetExceeded("masked")
                t0 = clock.ticks
                # baseline: without recovery on the actual input
                clock.reset(BASE_BUDGET)
                try:
                    r = p0.parse(text)
                    base = _result_digest(r)
                except StepBudgetExceeded:
                    raise
                except Exception as e:
                    base = None
                    rep["base_exc"] = type(e).__name__
                if clock.exceeded:
                    raise StepBudgetExceeded("masked")
            except StepBudgetExceeded:
                # the parser WITHOUT recovery does not terminate within the base
                # budget on this input (e.g. LR on a cyclic grammar): not a
                # statement about recovery, skip
                clock.reset()
                reports.append({"skip": "baseline_budget"})
                continue
            # the recovering parse under the step clock
            budget = 200 * (t0 + 2000) + 100 * len(text) ** 2
            pkey = (tkey, job["recovery"], own)
            mon = parsers.get(pkey) if spec.get("reuse") else None
            if mon is None:
                mon = Mon(clock, job["recovery"])
                clock.reset()
                mon.attach(_mk(g, None if own else table, cfg, mon.strategy()))
                if spec.get("reuse"):
                    parsers[pkey] = mon
            mon.begin(job["peer_seed"])
            p, events, act, last_err, inner = mon.p, mon.events, mon.act, mon.last_err, mon.peer
            if job.get("abort"):
                # a parse of this (reused) instance cut short by a failing callback;
                # nothing is required of it, everything of the parses after it
                peers.SEAM.reset((job["abort"]["seam"], job["abort"]["k"],
                                  job["abort"].get("exc")))
                clock.reset(budget)
                try:
                    p.parse(text)
                except StepBudgetExceeded:
                    pass
                except Exception:
                    pass
                fired = peers.SEAM.fired
                peers.SEAM.reset(None)
                clock.reset()
                reports.append({"skip": "aborted" if fired else "abort_not_fired"})
                continue
            clock.reset(budget)
            raised = None
            res = None
            over = False
            try:
                res = p.parse(text)
            except StepBudgetExceeded:
                over = True
            except Exception as e:
                raised = e
            if clock.exceeded:
                over = True  # whatever exception type surfaced, or none
            if over:
                ticks = clock.ticks
                clock.reset()
                if not act["in"] and act["last"] < budget // 2:
                    # The driver loops without entering recovery any more (no
                    # new error for half the budget): e.g. an endless chain of
                    # empty reductions of an LR table whose conflicts were
                    # resolved by prefer_shifts.  The same parser WITHOUT
                    # recovery loops on other inputs too; not a recovery
                    # livelock, outside C11.
                    reports.append({"skip": "driver_loop_outside_recovery"})
                    continue
                rep["probs"].append(f"no termination within step budget {budget} (T0={t0}); "
                                    f"last recovery activity at tick {act['last']}, "
                                    f"inside recovery call: {act['in']}")
                rep["class"] = "livelock"
                rep["ticks"] = ticks
                reports.append(rep)
                continue
            rep["ticks"] = clock.ticks
            clock.reset()
            rep["t0"] = t0
            if isinstance(job["recovery"], str) and job["recovery"] not in ("default", "off"):
                rep["peer_log"] = inner.log[:20]
                rep["peer_calls"] = len(inner.log)
            if raised is not None:
                rep["raised"] = type(raised).__name__
                if isinstance(raised, PSyntaxError):
                    loc = raised.location
                    s, _e = loc.start_position, loc.end_position
                    if not (isinstance(s, int) and 0 <= s <= len(text)):
                        rep["probs"].append(f"raised SyntaxError start {s} out of bounds")
                    if job["recovery"] not in ("default", "off") and last_err and (
                            raised is not last_err[0]) and (
                            raised.location.start_position
                            < last_err[0].location.start_position):
                        # an EARLIER error than the last one a strategy was shown.  (A
                        # later one is possible: the LAYOUT sub-parser raises its own
                        # SyntaxError, e.g. for an unclosed nested comment, and that
                        # error never passes through recovery.)
                        # compared by value (position), so that an implementation
                        # that copies error objects does not alarm
                        rep["probs"].append(
                            "raised SyntaxError (at %s) is not the last recorded error (at %s)"
                            % (raised.location.start_position,
                               last_err[0].location.start_position))
                    try:
                        str(raised)
                    except Exception as ex:
                        rep["probs"].append(f"str(error) fails: {type(ex).__name__}")
                elif isinstance(raised, DisambiguationError) and spec.get("lex_overlap"):
                    rep["raised"] = "DisambiguationError(ok)"
                elif type(raised).__name__ == "DynamicDisambiguationConflict" and cfg.get(
                        "filter") not in (None, "none") and cfg["kind"] == "lr":
                    # the documented outcome of an LR parse whose dynamic filter
                    # leaves more than one action; says nothing about recovery
                    rep["raised"] = "DynamicDisambiguationConflict(ok)"
                else:
                    rep["probs"].append(
                        f"raised {type(raised).__name__} instead of SyntaxError: {str(raised)[:200]}")
                    rep["class"] = "wrong-exception:" + type(raised).__name__
                if base is not None:
                    rep["probs"].append("input accepted without recovery but rejected with recovery")
                    rep["class"] = "baseline"
            else:
                errs = getattr(p, "errors", None)
                if errs is None:
                    rep["probs"].append("result returned but parser.errors missing")
                    errs = []
                spans = [[e.location.start_position, e.location.end_position] for e in errs]
                rep["nerrors"] = len(spans)
                sp = check_spans(spans, len(text))
                if sp:
                    rep["class"] = "spans"
                rep["probs"] += sp
                if base is not None:
                    if spans:
                        rep["probs"].append(
                            f"input accepted without recovery but {len(spans)} error(s) recorded")
                        rep["class"] = "baseline"
                    elif _result_digest(res) != base:
                        rep["probs"].append("result differs from the parser without recovery")
                        rep["class"] = "baseline"
                if (cfg["kind"] == "lr" and job["recovery"] != "default" and not sp
                        and cfg["opts"].get("consume_input", True)):
                    # conservation for custom strategies too (injected leaves are empty)
                    tp, leaves = check_tree(res, text, start_fqn, True, allow_injected=True)
                    if tp:
                        # leaves must still be input substrings in input order (an
                        # injected leaf is empty): e.g. an injected token that
                        # "occupies" real input
                        rep.setdefault("class", "tree")
                        rep["probs"] += tp[:4]
                    if not tp:
                        cp = check_conservation(text, leaves, spans, _ws_of(cfg),
                                                spec.get("layout"))
                        if cp:
                            rep.setdefault("class", "conservation")
                        rep["probs"] += cp
                        rep["conservation_checked"] = True
                if job["recovery"] == "default":
                    if cfg["kind"] == "lr":
                        trees = [res]
                    else:
                        try:
                            # res.solutions, not len(): the count may exceed sys.maxsize
                            trees = [res[i] for i in range(min(res.solutions, 4))]
                        except LoopError:  # cyclic grammar: infinitely many trees
                            trees = []
                            rep["cyclic_forest"] = True
                    consume = cfg["opts"].get("consume_input", True)
                    for t in trees:
                        tp, leaves = check_tree(t, text, start_fqn, consume)
                        if tp:
                            rep.setdefault("class", "tree")
                        rep["probs"] += tp[:4]
                        if cfg["kind"] == "lr" and consume and not tp and not sp:
                            cp = check_conservation(text, leaves, spans, _ws_of(cfg),
                                                    spec.get("layout"))
                            if cp:
                                rep.setdefault("class", "conservation")
                            rep["probs"] += cp
                            rep["conservation_checked"] = True
            if rep["probs"]:
                rep.setdefault("class", "other")
                if cfg["kind"] == "glr" and rep["class"] == "spans" and raised is None:
                    # known finding KF-C11-3: heads of one GLR error event that
                    # recover differently share one error span
                    errs = getattr(p, "errors", [])
                    for ei, heads in sorted(events.items()):
                        ok = [(a, b) for a, b, r in heads if r]
                        if len(heads) >= 2 and ok and ei < len(errs) and (
                                len(set(ok)) > 1
                                or any(a != errs[ei].location.start_position for a, _ in ok)):
                            rep["kf"] = "KF-C11-3"
                            rep["kf_event"] = [ei, heads]
                            break
            rep["multi_head_events"] = sum(1 for h in events.values() if len(h) >= 2)
            reports.append(rep)
    finally:
        clock.stop()
    return reports


def _result_digest(r):
    if type(r).__name__ == "Forest":
        return digest(forest_outcome(r, 10))
    if hasattr(r, "to_str"):
        return digest(r.to_str())
    return digest(str(r))


# ----------------------------------------------------------------------------
# driver


def gen_cfg(rng):
    kind = rng.choice(["lr", "glr"])
    opts = {}
    if rng.random() < 0.2:
        opts["prefer_shifts"] = rng.random() < 0.5
    if rng.random() < 0.2:
        opts["prefer_shifts_over_empty"] = rng.random() < 0.5
    if rng.random() < 0.15:
        opts["tables"] = "SLR"
    if rng.random() < 0.12:
        opts["consume_input"] = False
    if kind == "glr" and rng.random() < 0.2:
        opts["lexical_disambiguation"] = True
    return {"kind": kind, "opts": opts}


def gen_run(rng, tier):
    # a third of the runs reuse their parser instances across the 12 parses and
    # cut some parses short by a failing callback (recognizer, token-recognition
    # hook, dynamic filter, recovery strategy): the invariants must hold for
    # what comes after.  Those runs prefer the families that have such callbacks.
    reuse = rng.random() < 0.35
    if reuse:
        fams = ["rec", "rec", "rec", "dyn", "dyn", "expr", "stmt", "lexamb"]
    else:
        fams = ["expr", "expr", "expr", "stmt", "stmt", "nullable", "lexamb", "rec", "amb",
                "random", "dyn"]
    sc = pool.make_scenario(rng, fams)
    v = rng.randrange(len(sc["texts"]))
    m = sc["models"][v]
    spec = {"family": sc["family"], "text": sc["texts"][v], "recs": sc["recognizers"][v],
            "lex_overlap": sc["lex_overlap"], "layout": sc["layout"]}
    cfgs = [gen_cfg(rng) for _ in range(2)]
    if m.is_cyclic():
        # the LR driver does not terminate on cyclic grammars with or without
        # recovery (reduce loop A -> A); that is outside C11, so cyclic grammars
        # are exercised with GLR only
        for c in cfgs:
            c["kind"] = "glr"
    kinds = [k for k in pool.DAMAGE_KINDS if rng.random() < 0.7] or ["junk"]
    modes = ["default", "default", "default", "skip", "pureskip", "inject", "mixed", "giveup"]
    spec["reuse"] = reuse
    if sc["family"] in ("amb", "random", "nullable", "unprod") and sc["layout"] == "ws":
        for c in cfgs:
            if rng.random() < 0.3:
                c["opts"]["ws"] = rng.choice([None, None, " "])
    if sc.get("dynamic"):
        for c in cfgs:
            c["filter"] = rng.choice(["prec", "accept", "none"])
    for c in cfgs:
        c["ctr"] = rng.random() < (0.5 if reuse else 0.2)
    jobs = []
    mt = pool.MAX_TOKENS.get(sc["family"], 40)
    for _ in range(PARSES_PER_RUN):
        toks = m.sentence(rng, depth=rng.randint(1, 5))
        if len(toks) > mt:
            toks = toks[: rng.randint(1, mt)]
        fancy = 0.5 if sc["layout"] != "ws" else 0.2
        clean = pool.layout_tokens(rng, toks, sc["layout"], fancy=fancy)
        r = rng.random()
        fired = []
        if r < 0.22:
            text = clean  # fault-free baseline configuration
        elif r < 0.35:
            # arbitrary token / junk soup
            lex = m.all_lexemes() + pool.JUNK
            text = " ".join(rng.choice(lex) for _ in range(rng.randint(0, min(10, mt))))
            fired = ["soup"]
        else:
            dt, fired = pool.damage(rng, toks, m, kinds, rng.randint(1, 3))
            text = pool.layout_tokens(rng, dt, sc["layout"], fancy=fancy)
            if "trunc_char" in fired and text:
                text = text[: rng.randrange(len(text))]
        if sc["layout"] == "nested" and rng.random() < 0.3:
            t2 = pool.damage_layout(rng, text)
            if t2 is not None:
                text, fired = t2, fired + ["layout"]
        cfg = rng.choice(cfgs)
        if "ws" in cfg["opts"]:
            # ws=None (significant whitespace / non-textual input) or a reduced ws
            # set: single-letter token families need no separators at all
            drop = WS if cfg["opts"]["ws"] is None else "".join(
                c for c in WS if c not in cfg["opts"]["ws"])
            text = "".join(c for c in text if c not in drop)
            clean = "".join(c for c in clean if c not in drop)
        job = {"cfg": cfg, "input": text, "clean": clean,
               "recovery": rng.choice(modes), "peer_seed": rng.getrandbits(32),
               "faults": fired}
        if job["peer_seed"] % 8 == 0 and sc["family"] != "random":
            # both parsers of this parse (with and without recovery) build their own
            # table instead of sharing the precomputed one (no PRNG draw: the stream of
            # generated histories stays what it was)
            job["own_table"] = True
        if reuse and rng.random() < 0.25:
            seams = ["ctr", "recovery"]
            if spec["recs"]:
                seams += ["recognizer"] * 3
            if sc.get("dynamic"):
                seams += ["filter"] * 2
            job["abort"] = {"seam": rng.choice(seams), "k": rng.randint(1, 10),
                            "exc": rng.choice(peers.FAULT_EXC_NAMES)}
        jobs.append(job)
    return spec, jobs


def run_jobs(spec, jobs):
    return call_or_raise(child_parses, spec, jobs, timeout=900)


def failing(spec, jobs, include_known=False):
    """jobs: the parses of one simulated process in order; the LAST one is the
    one under test (earlier ones matter only when instances are reused)."""
    if isinstance(jobs, dict):
        jobs = [jobs]
    rep = run_jobs(spec, jobs)[-1]
    if rep.get("probs") and (include_known or not rep.get("kf")):
        return rep
    return None


def minimise(spec, jobs, budget_s):
    if isinstance(jobs, dict):
        jobs = [jobs]
    first = failing(spec, jobs)
    if not first:
        return None
    cls = first.get("class")
    deadline = time.monotonic() + budget_s
    jobs = json.loads(json.dumps(jobs))
    last = jobs[-1]

    def same(r):
        return bool(r) and r.get("class") == cls

    # drop earlier parses (reuse histories)
    if len(jobs) > 1:
        if same(failing(spec, [last])):
            jobs = [last]
        else:
            pre = ddmin(jobs[:-1], lambda sub: same(failing(spec, sub + [last])), deadline)
            jobs = pre + [last]
    pre = jobs[:-1]

    def test_text(chars):
        return same(failing(spec, pre + [dict(last, input="".join(chars))]))

    if len(last["input"]) > 1:
        chars = ddmin(list(last["input"]), test_text, deadline)
        if test_text(chars):
            last["input"] = "".join(chars)
    for k in list(last["cfg"]["opts"]):
        cand = dict(last, cfg=dict(last["cfg"], opts={a: b for a, b in last["cfg"]["opts"].items()
                                                      if a != k}))
        if not pre and same(failing(spec, [cand])):
            last = cand
    if len(last["clean"]) > 80:
        last["clean"] = last["clean"][:80]
    jobs = pre + [last]
    r = failing(spec, jobs)
    return {"spec": spec, "jobs": jobs, "report": r or first}


def one_run(vseed, idx, tier):
    rng = rng_for(vseed, PROP, idx)
    spec, jobs = gen_run(rng, tier)
    reports = run_jobs(spec, jobs)
    stats = Stats()
    bad = None
    ticks = 0
    sigs = []
    for job, rep in zip(jobs, reports):
        if "skip" in rep:
            if rep["skip"] in ("aborted", "abort_not_fired"):
                stats.inc("reuse." + rep["skip"])
            else:
                stats.inc("skipped_" + ("build_failed" if rep["skip"] == "build" else rep["skip"]))
            continue
        if spec.get("reuse"):
            stats.inc("reuse.parses_on_reused_instances")
        stats.inc("parses")
        stats.inc(f"kind.{rep['kind']}")
        stats.inc(f"mode.{rep['mode']}")
        for f in job["faults"]:
            stats.inc(f"fault_fired.{f}")
        if not job["faults"]:
            stats.inc("fault_free_inputs")
        ticks += rep.get("ticks", 0)
        if rep.get("raised"):
            stats.inc("outcome.raised." + rep["raised"])
        else:
            ne = rep.get("nerrors", 0)
            stats.inc("outcome.returned." + ("0" if ne == 0 else "1" if ne == 1 else "2+") + "errors")
        if rep.get("conservation_checked"):
            stats.inc("conservation_checked")
        if "base_exc" not in rep:
            stats.inc("accepted_without_recovery")
        for entry in rep.get("peer_log", []):
            stats.inc("peer." + entry[0])
        sigs.append([rep["kind"], rep["mode"], rep.get("raised"), rep.get("nerrors"),
                     sorted(set(job["faults"]))])
        if rep.get("multi_head_events"):
            stats.inc("glr_multi_head_recoveries")
        if rep["probs"] and rep.get("kf"):
            stats.inc("attributed." + rep["kf"])
        elif rep["probs"] and bad is None:
            len(sigs)  # not used for indexing
            ji = jobs.index(job)
            bad = {"spec": spec, "jobs": jobs[: ji + 1] if spec.get("reuse") else [job],
                   "report": rep}
    res = {"family": spec["family"], "stats": stats.as_dict(), "ticks": ticks,
           "digest": digest([[r.get("raised"), r.get("nerrors"), r.get("ticks"), r.get("probs")]
                             for r in reports]),
           "sigs": [digest(s) for s in sigs], "violation": bad}
    if idx % 499 == 0:
        res["sample"] = {"family": spec["family"], "grammar": spec["text"],
                         "jobs": [{"input": j["input"], "recovery": j["recovery"],
                                   "kind": j["cfg"]["kind"], "faults": j["faults"],
                                   "raised": r.get("raised"), "nerrors": r.get("nerrors")}
                                  for j, r in list(zip(jobs, reports))[:5]]}
    return res
