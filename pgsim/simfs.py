"""Simulated disk for the table-cache simulator.

* SimDir: a real directory on tmpfs whose mtimes are owned by the simulator
  (integer simulated clock; files are re-stamped after every operation when
  their content or real mtime changed).
* WriteSeam: wrapper around builtins.open / io.open, installed inside a
  simulated process, transparent except for files under the simulated root
  opened for writing: counts characters, and can cut a write after k characters
  and then kill the process (crash) or raise an OSError (I/O error), or refuse
  the open (PermissionError).
"""

import builtins
import errno
import hashlib
import io
import os
import shutil

from .core import CRASH_EXIT

T0 = 1_000_000_000
NS = 1_000_000_000
# simulated times stay below T0 + ~2e6 s; the real clock is beyond this floor
REAL_TIME_FLOOR = 1_500_000_000


def _sha(path):
    with builtins.open(path, "rb") as f:
        return hashlib.sha256(f.read()).hexdigest()[:16]


class SimDir:
    def __init__(self, path):
        self.path = os.path.realpath(path)
        os.makedirs(self.path, exist_ok=True)
        self.clock_ns = T0 * NS
        self.clock = float(T0)
        self.explicit_utimes = 0
        self.known = {}  # name -> (size, sha, mtime_ns as stamped)
        self.pinned = {}  # name -> mtime set by future-dating (survives sync)

    def p(self, name):
        return os.path.join(self.path, name)

    def tick(self, dt):
        """dt in seconds (may be fractional; resolution 1 ms)."""
        self.clock_ns += max(1_000_000, int(round(dt * 1000)) * 1_000_000)
        self.clock = self.clock_ns / NS

    def names(self):
        return sorted(
            n for n in os.listdir(self.path) if os.path.isfile(os.path.join(self.path, n))
        )

    def write(self, name, text):
        with builtins.open(self.p(name), "w") as f:
            f.write(text)
        self.stamp(name, self.clock)

    def stamp(self, name, t):
        p = self.p(name)
        ns = int(round(t * 1000)) * 1_000_000
        os.utime(p, ns=(ns, ns))
        st = os.stat(p)
        self.known[name] = (st.st_size, _sha(p), st.st_mtime_ns)

    def touch(self, name, t=None):
        self.stamp(name, self.clock if t is None else t)

    def delete(self, name):
        try:
            os.unlink(self.p(name))
        except FileNotFoundError:
            return False
        self.known.pop(name, None)
        return True

    def sync(self):
        """After an operation: re-stamp every file that was written (content or
        real mtime differs from what the simulator stamped) with the simulated
        clock; forget deleted files.  Returns names of changed files."""
        changed = []
        present = set(self.names())
        for n in list(self.known):
            if n not in present:
                del self.known[n]
        for n in sorted(present):
            p = self.p(n)
            st = os.stat(p)
            k = self.known.get(n)
            if k is not None and k[2] == st.st_mtime_ns and k[0] == st.st_size:
                continue
            if st.st_mtime < REAL_TIME_FLOOR:
                # The code under test set this mtime itself (os.utime): a plain
                # write carries the real wall-clock time, which lies far above
                # every simulated time.  Its value can only have been derived
                # from the simulated mtimes of other files, so it is already in
                # the simulated time domain: keep it.
                self.known[n] = (st.st_size, _sha(p), st.st_mtime_ns)
                self.explicit_utimes += 1
            else:
                self.stamp(n, self.clock)
            changed.append(n)
        return changed

    def mtime(self, name):
        try:
            return os.stat(self.p(name)).st_mtime
        except FileNotFoundError:
            return None

    def sha(self, name):
        try:
            return _sha(self.p(name))
        except FileNotFoundError:
            return None

    def read_bytes(self, name):
        try:
            with builtins.open(self.p(name), "rb") as f:
                return f.read()
        except FileNotFoundError:
            return None

    def sources_sha(self, suffixes=(".pg", ".pge")):
        h = hashlib.sha256()
        for n in self.names():
            if n.endswith(suffixes):
                h.update(n.encode() + b"\0" + self.read_bytes(n) + b"\0")
        return h.hexdigest()[:16]

    def destroy(self):
        shutil.rmtree(self.path, ignore_errors=True)


class _Proxy:
    def __init__(self, f, seam, entry, fault):
        self.__dict__["_f"] = f
        self.__dict__["_seam"] = seam
        self.__dict__["_e"] = entry
        self.__dict__["_fault"] = fault
        self.__dict__["_failed"] = False

    def write(self, s):
        """Counts BYTES (the property speaks of byte-prefixes): text is encoded
        with the file's own encoding, so a cut can land inside a multi-byte
        character."""
        e, fault = self._e, self._fault
        if self._failed:
            raise OSError(self._failed, os.strerror(self._failed), e["path"])
        if isinstance(s, str):
            enc = getattr(self._f, "encoding", None) or "utf-8"
            data = s.encode(enc, errors=getattr(self._f, "errors", None) or "strict")
        else:
            data = bytes(s)
        if fault is not None:
            k = fault["offset"]
            if e["n"] + len(data) >= k:
                part = data[: k - e["n"]]
                self._f.flush()
                raw = getattr(self._f, "buffer", self._f)
                if part:
                    raw.write(part)
                raw.flush()
                e["n"] += len(part)
                e["fault"] = fault["kind"]
                self._seam.fired = fault["kind"]
                if fault["kind"] == "crash":
                    os._exit(CRASH_EXIT)
                eno = errno.ENOSPC if fault["kind"] == "enospc" else errno.EIO
                self.__dict__["_failed"] = eno
                raise OSError(eno, os.strerror(eno), e["path"])
        r = self._f.write(s)
        e["n"] += len(data)
        e["chunks"] += 1
        return r

    def writelines(self, lines):
        for line in lines:
            self.write(line)

    def close(self):
        self._e["closed"] = True
        r = self._f.close()
        ns = self._seam.now_ns
        if ns is not None:
            # the simulated file system reports simulated time at once, also to the
            # process that has just written the file
            try:
                os.utime(self._e["abspath"], ns=(ns, ns))
            except OSError:
                pass
        return r

    def __enter__(self):
        return self

    def __exit__(self, *a):
        self.close()
        return False

    def __getattr__(self, name):
        return getattr(self._f, name)

    def __setattr__(self, name, value):
        setattr(self._f, name, value)

    def __iter__(self):
        return iter(self._f)


class WriteSeam:
    """fault = {'kind': crash|enospc|eio|eperm, 'target': suffix, 'offset': k}"""

    def __init__(self, root, fault=None, now_ns=None):
        self.root = os.path.realpath(root) + os.sep
        self.fault = fault
        self.now_ns = now_ns
        self.log = []
        self.fired = None
        self._real = builtins.open
        self._armed = fault is not None

    def install(self):
        builtins.open = self.open
        io.open = self.open

    def uninstall(self):
        builtins.open = self._real
        io.open = self._real

    def open(self, file, mode="r", *args, **kwargs):
        if isinstance(file, int) or not any(c in mode for c in "wax+"):
            return self._real(file, mode, *args, **kwargs)
        try:
            path = os.path.realpath(os.fspath(file))
        except TypeError:
            return self._real(file, mode, *args, **kwargs)
        if not path.startswith(self.root):
            return self._real(file, mode, *args, **kwargs)
        name = path[len(self.root) :]
        entry = {"path": name, "abspath": path, "n": 0, "chunks": 0, "closed": False,
                 "fault": None}
        fault = None
        # the target is the cache file OR a temporary file it is written through
        # (g.pgc.tmp, g.pgc.1234.tmp ...): an interrupted atomic write tears the
        # temporary file
        if self._armed and self.fault["target"] in os.path.basename(name):
            self._armed = False
            fault = self.fault
            if fault["kind"] == "eperm":
                entry["fault"] = "eperm"
                self.fired = "eperm"
                self.log.append(entry)
                raise PermissionError(errno.EACCES, os.strerror(errno.EACCES), path)
        f = self._real(file, mode, *args, **kwargs)
        self.log.append(entry)
        return _Proxy(f, self, entry, fault)
