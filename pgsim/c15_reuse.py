"""C15 -- parsers are reusable and grammars are not corrupted by building parsers.

Histories of operations on shared Grammar / Parser / GLRParser objects inside
one simulated process, with calls cut short by exceptions injected at the
callback seams; every build and every un-faulted parse is a probe whose outcome
must equal the outcome of the same single operation on fresh objects in a
pristine simulated process.  Three phases: plan (driver, no parglare code),
oracle (pristine children, memoised; also yields per-seam invocation counts used
to place the faults), execute (one child runs the explicit op list).
See DESIGN.md section 5.
"""

import gc
import json
import time

from . import peers, pool
from .core import (
    CpuGuard,
    HarnessError,
    Stats,
    StepBudgetExceeded,
    call_or_raise,
    canon,
    ddmin,
    digest,
    fork_call,
)
from .outcome import build_kwargs, exc_outcome, parse_outcome, result_outcome, table_digest

PROP = "C15"
STEP_BUDGET = 4_000_000

# ----------------------------------------------------------------------------
# inside simulated processes


def _make_grammar(gd, flags=None):
    from parglare import Grammar

    kw = {k: True for k in (flags or [])}  # debug / debug_parse / debug_colors
    return Grammar.from_string(gd["text"], recognizers=peers.wrap_recognizers(gd.get("recs")),
                               **kw)


def _make_parser(g, b, spec, actions=None, shared_table=None):
    from parglare import GLRParser, Parser

    cls = Parser if b["kind"] == "lr" else GLRParser
    kw = build_kwargs(b["opts"])
    if b.get("bad_actions"):
        # a construction that must fail: another (differently tagged) action table
        # whose entry for one nonterminal is a list of the wrong length
        # it names EVERY symbol (the real table may name fewer), and fails either at a
        # nonterminal (wrong-length list) or at a terminal (a list is not allowed
        # there; terminals are resolved after all nonterminals, so nearly the whole
        # foreign table is on the symbols when it fails)
        ba = b["bad_actions"]
        bad = peers.recording_actions(ba["all_nts"], ba["all_terms"], tag="bad")
        f0 = next(iter(bad.values()))
        if ba.get("term") is not None:
            bad[ba["term"]] = [f0]
        else:
            bad[ba["nt"]] = [f0] * ba["n"]
        kw["actions"] = bad
    elif spec.get("actions"):
        kw["actions"] = actions if actions is not None else peers.recording_actions(
            spec["act_nts"], spec["act_terms"])
    rec = peers.make_recovery(b.get("recovery"))
    if rec:
        kw["error_recovery"] = rec
    f = peers.make_filter(b.get("filter"))
    if f:
        kw["dynamic_filter"] = f
    if b.get("ctr"):
        kw["custom_token_recognition"] = peers.custom_token_recognition
    if shared_table is not None:
        kw["table"] = shared_table
    elif b.get("table_of"):
        # fresh-object oracle of a table-sharing construction: a fresh donor
        # parser (never used) whose LRTable object is handed over with table=
        donor, _ = _make_parser(g, b["table_of"], spec, actions)
        kw["table"] = donor.table
    if "table" in kw:
        for k in ("tables", "prefer_shifts", "prefer_shifts_over_empty"):
            kw.pop(k, None)
    p = cls(g, **kw)
    return p, rec


def _do_build(g, b, spec, actions=None, shared_table=None):
    try:
        p, rec = _make_parser(g, b, spec, actions, shared_table)
    except Exception as e:
        return None, None, {"build": exc_outcome(e)}
    return p, rec, {"build": "ok", "table": table_digest(p.table)}


def _do_parse(p, rec, op, armed=None, keep=None):
    peers.SEAM.reset(armed)
    if isinstance(rec, peers.RecoveryPeer):
        rec.begin(op.get("peer_seed", 0))
    # a temporary string object per parse, freed afterwards like a record read from a
    # stream: the next input may then live at the same address
    if op.get("pre") is not None:
        # another record of the same length parsed right before and freed at once:
        # the real input then very likely lives at the same address
        t0 = "".join(list(op["pre"]))
        try:
            p.parse(t0)
        except Exception:
            pass
        del t0
        # the GSS of a parse is cyclic garbage that keeps its input alive until the
        # collector runs; let it run now, as it would at some point in a long job
        gc.collect()
        text = "".join(list(op["input"]))
        peers.SEAM.reset(armed)
        if isinstance(rec, peers.RecoveryPeer):
            rec.begin(op.get("peer_seed", 0))
    else:
        text = "".join(list(op["input"]))
    pk = dict(op.get("kw") or {})
    if "extra" in pk:
        pk["extra"] = dict(pk["extra"])  # the caller's own object, fresh per call
    out = parse_outcome(
        p, text, with_errors=bool(rec), call_actions=op.get("mode") == "call_actions",
        keep=keep, parse_kwargs=pk,
    )
    del text
    out["seams"] = dict(peers.SEAM.counts)
    out["fired"] = peers.SEAM.fired
    peers.SEAM.reset(None)
    return out


CPU_BUDGET = 8.0


def child_parse_query(p, rec, q):
    try:
        with CpuGuard(CPU_BUDGET):
            return _do_parse(p, rec, q)
    except StepBudgetExceeded:
        return {"budget": True}


def child_build_group(spec, g, b, qs):
    """Fresh parser on a fresh grammar; every parse query runs in its own fork
    of this never-used parser, i.e. is the first parse of a fresh instance."""
    try:
        with CpuGuard(CPU_BUDGET):
            p, rec, out = _do_build(g, b, spec)
    except StepBudgetExceeded:
        return [{"budget": True} for _ in qs]
    res = []
    for q in qs:
        if q["q"] == "build":
            res.append(out)
        elif p is None:
            res.append({"nobuild": True})
        else:
            st, r = fork_call(child_parse_query, p, rec, q, timeout=900)
            if st != "ok":
                raise HarnessError(f"oracle parse child: {st}: {r}")
            res.append(r)
    return res


def child_oracle_group(spec, gd, qs):
    """All oracle queries of one history that share a grammar text.  The
    Grammar object is built once in this pristine process and never used here;
    every (build options) group runs in its own fork of it."""
    res = [None] * len(qs)
    try:
        with CpuGuard(CPU_BUDGET):
            try:
                g = _make_grammar(gd)
                gout = {"grammar": "ok"}
            except Exception as e:
                g = None
                gout = {"grammar": exc_outcome(e)}
    except StepBudgetExceeded:
        return [{"budget": True} for _ in qs]
    groups = {}
    for i, q in enumerate(qs):
        if q["q"] == "grammar":
            res[i] = gout
        elif g is None:
            res[i] = {"build": gout["grammar"], "stage": "grammar"}
        else:
            groups.setdefault(canon(q["b"]), []).append(i)
    for key in sorted(groups):
        idxs = groups[key]
        st, r = fork_call(child_build_group, spec, g, qs[idxs[0]]["b"], [qs[i] for i in idxs],
                          timeout=3000)
        if st != "ok":
            raise HarnessError(f"oracle build child: {st}: {r}")
        for i, x in zip(idxs, r):
            res[i] = x
    return res


def child_history(spec, ops):
    """Execute the explicit op list on shared objects."""
    grammars, parsers = {}, {}
    outs = []
    kept = {}
    actions_of = {}
    try:
        with CpuGuard(CPU_BUDGET * 2):
            for op in ops:
                k = op["op"]
                if k == "grammar":
                    try:
                        grammars[op["g"]] = _make_grammar(spec["grammars"][op["text"]],
                                                          op.get("flags"))
                        outs.append({"grammar": "ok"})
                    except Exception as e:
                        outs.append({"grammar": exc_outcome(e)})
                elif k == "grammar_bad":
                    try:
                        _make_grammar({"text": op["text"]})
                        outs.append({"grammar": "ok"})
                    except Exception as e:
                        outs.append({"grammar": exc_outcome(e)})
                elif k == "build":
                    # "the same actions": ONE dict object per Grammar object, handed
                    # to every construction on it (fresh oracles get their own)
                    gobj = grammars.get(op["g"])
                    if gobj is None:
                        # the grammar op of this history failed (reported there)
                        parsers[op["p"]] = (None, None)
                        outs.append({"skipped": "no grammar"})
                        continue
                    if id(gobj) not in actions_of:
                        actions_of[id(gobj)] = (gobj, peers.recording_actions(
                            spec["act_nts"], spec["act_terms"]))
                    shared = None
                    if op["b"].get("table_of") is not None:
                        # the documented table= parameter: this parser shares the
                        # LRTable OBJECT of an existing parser of the same Grammar
                        donor = parsers.get(op["table_from"], (None, None))[0]
                        if donor is None or donor.grammar is not gobj:
                            parsers[op["p"]] = (None, None)
                            outs.append({"skipped": "no donor"})
                            continue
                        shared = donor.table
                    p, rec, out = _do_build(gobj, op["b"], spec, actions_of[id(gobj)][1], shared)
                    parsers[op["p"]] = (p, rec)
                    outs.append(out)
                elif k == "parse":
                    p, rec = parsers.get(op["p"], (None, None))
                    if p is None:
                        outs.append({"skipped": "no parser"})
                        continue
                    armed = None
                    f = op.get("fault")
                    if f is not None and f.get("k"):
                        armed = (f["seam"], f["k"], f.get("exc"))
                    keep = []
                    outs.append(_do_parse(p, rec, op, armed, keep))
                    if keep:
                        kept[len(outs) - 1] = keep[0]
                elif k == "reinspect":
                    # look again, later, at a result returned by an earlier parse
                    # (lazy forests and trees rely on retained parser state)
                    if op["ref"] in kept:
                        outs.append({"reinspect": result_outcome(kept[op["ref"]])})
                    else:
                        outs.append({"skipped": "nothing kept"})
                else:
                    raise HarnessError(f"unknown op {k}")
    except StepBudgetExceeded:
        outs.append({"budget": True})
    return outs


# ----------------------------------------------------------------------------
# driver side


def comparable(out):
    return {k: v for k, v in out.items() if k not in ("seams", "fired")}


def oracle_batch(spec, queries):
    """Answers for a list of oracle queries (None entries stay None)."""
    res = [None] * len(queries)
    groups = {}
    for i, q in enumerate(queries):
        if q is not None:
            groups.setdefault(canon(q["g"]), []).append(i)
    for key in sorted(groups):
        idxs = groups[key]
        # de-duplicate identical queries inside the group
        uniq, where = [], {}
        for i in idxs:
            k = canon(queries[i])
            if k not in where:
                where[k] = len(uniq)
                uniq.append(queries[i])
        r = call_or_raise(child_oracle_group, spec, queries[idxs[0]]["g"], uniq, timeout=6000)
        for i in idxs:
            res[i] = r[where[canon(queries[i])]]
    return res


def run_history(spec, ops, stats=None):
    """Phases 2 and 3 for an explicit history.  Resolves fault indices in place.
    Returns (records, divergences)."""
    stats = stats if stats is not None else Stats()
    gtexts, builds = {}, {}
    queries = []
    for i, op in enumerate(ops):
        k = op["op"]
        q = None
        if k == "grammar":
            gtexts[op["g"]] = op["text"]
            q = {"q": "grammar", "g": spec["grammars"][op["text"]]}
        elif k == "grammar_bad":
            q = {"q": "grammar", "g": {"text": op["text"]}}
        elif k == "build":
            gd = spec["grammars"][gtexts[op["g"]]]
            builds[op["p"]] = (gd, op["b"])
            q = {"q": "build", "g": gd, "b": op["b"]}
        elif k == "parse" and op["p"] in builds:
            gd, b = builds[op["p"]]
            q = {"q": "parse", "g": gd, "b": b, "input": op["input"]}
            if op.get("mode"):
                q["mode"] = op["mode"]
            if "peer_seed" in op:
                q["peer_seed"] = op["peer_seed"]
            if op.get("kw"):
                q["kw"] = op["kw"]
        queries.append(q)
    wants = oracle_batch(spec, queries)
    for i, op in enumerate(ops):
        want = wants[i]
        if op["op"] == "parse":
            if want is not None and want.get("nobuild"):
                wants[i] = want = None
            if op.get("fault") is not None and want is not None:
                f = op["fault"]
                if "k" not in f:
                    cnt = (want.get("seams") or {}).get(f["seam"], 0)
                    f["k"] = 1 + min(cnt - 1, int(f["frac"] * cnt)) if cnt > 0 else 0
    outs = call_or_raise(child_history, spec, ops, timeout=1800)
    records, divs = [], []
    pstate = {}
    for i, op in enumerate(ops):
        if i >= len(outs):
            break
        out, want = outs[i], wants[i]
        k = op["op"]
        rec = {"i": i, "op": k}
        if out.get("budget") or (want is not None and want.get("budget")):
            stats.inc("skipped_step_budget")
            records.append(rec)
            break
        faulted = k == "parse" and op.get("fault") is not None and out.get("fired")
        if k == "parse":
            prev = pstate.get(op["p"], "new")
            stats.inc(f"pair.{prev}>{'parse_faulted' if faulted else 'parse'}")
            if op.get("fault") is not None:
                if faulted:
                    stats.inc(f"fault_fired.{op['fault']['seam']}")
                else:
                    stats.inc("fault_not_fired")
            pstate[op["p"]] = _abstract(out, op if faulted else None)
            rec["state"] = pstate[op["p"]]
        elif k == "build":
            stats.inc("build." + ("ok" if out.get("build") == "ok" else "failed"))
            pstate[op["p"]] = "new"
        rec["out"] = digest(comparable(out))
        if k == "reinspect":
            if "reinspect" in out and op["ref"] < len(outs):
                first = {kk: vv for kk, vv in comparable(outs[op["ref"]]).items()
                         if kk in out["reinspect"]}
                stats.inc("reinspections")
                if first != out["reinspect"]:
                    divs.append({"i": i, "op": k, "actual": out["reinspect"], "fresh": first,
                                 "prev_state": "result of op %d looked at again" % op["ref"]})
                    rec["div"] = True
                    stats.inc("div")
            records.append(rec)
            continue
        if faulted or want is None or "skipped" in out:
            records.append(rec)
            continue
        stats.inc("probes")
        if comparable(out) != comparable(want):
            divs.append({"i": i, "op": k, "actual": comparable(out), "fresh": comparable(want),
                         "prev_state": rec.get("state")})
            rec["div"] = True
            stats.inc("div")
        records.append(rec)
    return records, divs


def _abstract(out, fault_op):
    if fault_op is not None:
        return "faulted@" + fault_op["fault"]["seam"]
    if "exc" in out:
        return {"SyntaxError": "syntax-error"}.get(out["exc"], "exc:" + out["exc"])
    if out.get("errors"):
        return "recovered"
    return "ok"


# ----------------------------------------------------------------------------
# generation


def gen_build(rng, sc, lr_fail_bias=False):
    kind = rng.choice(["lr", "glr"])
    opts = {}
    for k in ("prefer_shifts", "prefer_shifts_over_empty"):
        v = rng.choice([None, None, True, False])
        if v is not None:
            opts[k] = v
    if lr_fail_bias and kind == "lr":
        opts["prefer_shifts"] = False
    ld = rng.choice([None, None, None, True, False])
    if ld is not None:
        opts["lexical_disambiguation"] = ld
    t = rng.choice([None, None, "LALR", "SLR"])
    if t:
        opts["tables"] = t
    if kind == "lr" and rng.random() < 0.35:
        opts["build_tree"] = True
        if rng.random() < 0.3:
            opts["call_actions_during_tree_build"] = True
    if rng.random() < 0.15:
        opts["consume_input"] = False
    if rng.random() < 0.08:
        opts["debug_colors"] = True  # sets the module-global termui.colors
    if kind == "lr" and rng.random() < 0.1:
        opts["return_position"] = True
    if rng.random() < 0.03:
        opts["debug"] = True  # tracing output goes to /dev/null; own code paths in GLR
    b = {"kind": kind, "opts": opts}
    b["recovery"] = rng.choice(["off", "off", "default", "default", "skip", "inject", "mixed",
                                "pureskip"])
    if sc.get("dynamic"):
        b["filter"] = rng.choice(["prec", "prec", "accept", "none"])
    else:
        b["filter"] = rng.choice(["none", "none", "none", "accept"])
    b["ctr"] = rng.random() < 0.25
    return b


def gen_run(rng, tier):
    sc = pool.make_scenario(
        rng, ["expr", "expr", "stmt", "stmt", "nullable", "lexamb", "dyn", "dyn", "rec",
              "rec", "amb", "random", "unprod"])
    nver = len(sc["texts"])
    va = rng.randrange(nver)
    vb = va if rng.random() < 0.5 else rng.randrange(nver)
    grammars = [{"text": sc["texts"][v], "recs": sc["recognizers"][v]} for v in (va, vb)]
    use_actions = rng.random() < 0.6
    act_nts = list(sc["nts"])
    if sc.get("named") and rng.random() < 0.6:
        act_nts = [n for n in act_nts if n in ("Expr",)]
    if rng.random() < 0.5:
        act_nts = [n for n in act_nts if rng.random() < 0.7] or act_nts[:1]
    act_terms = [t for t in sc["terms"] if rng.random() < 0.7]
    spec = {"family": sc["family"], "grammars": grammars, "actions": use_actions,
            "act_nts": act_nts, "act_terms": act_terms}
    seams = [s for s in peers.SEAMS if rng.random() < 0.7] or ["reduce_action"]
    maxlen = 12 if tier == "quick" else 24
    n = rng.randint(3, maxlen)
    ops = [{"op": "grammar", "g": 0, "text": 0}]
    have_g = {0}
    parsers = {}  # slot -> build
    nslots = 4
    vers = {0: va, 1: vb}

    def inp(g):
        v = vers[g] if rng.random() < 0.8 else None
        return pool.gen_input(rng, sc, version=v, p_damage=0.5)[0]

    def parse_op(slot, fault=False):
        b = parsers[slot]
        op = {"op": "parse", "p": slot, "input": inp(b["_g"]),
              "peer_seed": rng.getrandbits(32)}
        if (b["kind"] == "glr" or b["opts"].get("build_tree")) and rng.random() < 0.5:
            op["mode"] = "call_actions"
        if rng.random() < 0.12:
            # the optional arguments of parse(): none of them may be remembered
            which = rng.choice(["file_name", "extra", "position"])
            if which == "file_name":
                op["kw"] = {"file_name": rng.choice(["in.txt", "dir/other.src"])}
            elif which == "extra":
                op["kw"] = {"extra": {"run": rng.randrange(100)}}
            else:
                junk = rng.choice(["@@", "# ", "%%%"])
                op["input"] = junk + op["input"]
                op["kw"] = {"position": len(junk)}
        if fault:
            # prefer the seams that exist in this scenario: recognizers are also
            # called while an error is being reported (every recognizer is probed),
            # the dynamic filter in the middle of frontiers
            weighted = list(seams)
            if any(sc["recognizers"]) and "recognizer" in seams:
                weighted += ["recognizer"] * 3
            if sc.get("dynamic") and "filter" in seams:
                weighted += ["filter"] * 2
            op["fault"] = {"seam": rng.choice(weighted), "frac": rng.random(),
                           "exc": rng.choice(peers.FAULT_EXC_NAMES)}
            if any(sc["recognizers"]) and rng.random() < 0.5:
                # an erroneous input, so that the error-reporting phase is reached
                op["input"] = pool.gen_input(rng, sc, version=vers[b["_g"]], p_damage=1.0,
                                             kinds=["junk", "dup", "subst", "drop"])[0]
        elif len(op["input"]) > 1 and rng.random() < 0.15:
            x = op["input"]
            r2 = rng.random()
            if r2 < 0.3:
                k = rng.randrange(1, len(x))
                op["pre"] = x[k:] + x[:k]  # same length, other content
            elif r2 < 0.7:
                # same length, same token structure, other lexemes (digits and
                # letters shifted by one): parsed successfully if the input is
                pre = "".join(
                    "0123456789"[(ord(c) - 47) % 10] if c.isdigit() and c.isascii()
                    else chr((ord(c) - 96) % 26 + 97) if "a" <= c <= "z"
                    else chr((ord(c) - 64) % 26 + 65) if "A" <= c <= "Z" else c
                    for c in x)
                if pre != x:
                    op["pre"] = pre
            else:
                # same length, rejected at the position of the real input's first token
                k = len(x) - len(x.lstrip())
                if k < len(x):
                    op["pre"] = x[:k] + rng.choice("@#~") + x[k + 1:]
            if op.get("pre") is not None:
                # both records padded with trailing layout to one unusual, large size:
                # blocks of that size are handed out again by the allocator at once,
                # small ones are lost among thousands of freed objects
                pad = " " * max(0, 600 + rng.randrange(64) - len(x))
                op["input"] = x + pad
                op["pre"] = op["pre"] + pad
        return op

    while len(ops) < n:
        r = rng.random()
        if not parsers or r < 0.22:
            g = rng.choice(sorted(have_g))
            slot = rng.randrange(nslots)
            b = gen_build(rng, sc, lr_fail_bias=rng.random() < 0.2)
            ops.append({"op": "build", "p": slot, "g": g, "b": b})
            parsers[slot] = dict(b, _g=g)
        elif r < 0.24 and parsers:
            # a parser that shares the table object of an existing one (table=)
            dslot = rng.choice(sorted(parsers))
            donor = parsers[dslot]
            if donor.get("table_of") is None and not donor.get("bad_actions"):
                b = gen_build(rng, sc)
                b["table_of"] = {k: v for k, v in donor.items() if k != "_g"}
                slot = rng.choice([x for x in range(nslots) if x != dslot])
                ops.append({"op": "build", "p": slot, "g": donor["_g"], "b": b,
                            "table_from": dslot})
                parsers[slot] = dict(b, _g=donor["_g"])
                # the donor must be unaffected: probe it right away, mostly
                if rng.random() < 0.7:
                    ops.append(parse_op(dslot))
        elif r < 0.255 and use_actions and act_nts:
            # a construction that fails with ParserInitError half way through
            # action resolution (wrong-length action list for one nonterminal)
            g = rng.choice(sorted(have_g))
            b = gen_build(rng, sc)
            gm = sc["models"][vers[g]]
            gnts = gm.nts()
            gterms = sorted(gm.terms)
            b["bad_actions"] = {"nt": rng.choice(gnts), "n": rng.choice([0, 9]),
                                "all_nts": gnts, "all_terms": gterms}
            if rng.random() < 0.6:
                b["bad_actions"]["term"] = rng.choice(gterms)
            slot = rng.randrange(nslots)
            ops.append({"op": "build", "p": slot, "g": g, "b": b})
            parsers.pop(slot, None)
            # The failed attempt used ANOTHER action table and leaves part of it on
            # the shared symbols, so existing parsers of this Grammar are outside
            # "with the same actions" until the next successful construction has
            # resolved the real table again: that construction follows at once.
            b2 = gen_build(rng, sc)
            slot2 = rng.randrange(nslots)
            ops.append({"op": "build", "p": slot2, "g": g, "b": b2})
            parsers[slot2] = dict(b2, _g=g)
        elif r < 0.27 and len(have_g) < 2:
            ops.append({"op": "grammar", "g": 1, "text": 1})
            have_g.add(1)
        elif r < 0.30:
            g = rng.choice(sorted(have_g))
            op = {"op": "grammar", "g": g, "text": g}
            if rng.random() < 0.4:
                # debugging flags of Grammar.from_string: they go to the module-level
                # grammar-of-grammars parser and to termui
                op["flags"] = [rng.choice(["debug_parse", "debug", "debug_colors"])]
            ops.append(op)
        elif r < 0.34:
            bad = sc["texts"][rng.randrange(nver)]
            cut = rng.randrange(1, max(2, len(bad)))
            ops.append({"op": "grammar_bad", "text": bad[:cut] + rng.choice([" ::", " |;", "{"])})
        elif r < 0.55:
            slot = rng.choice(sorted(parsers))
            ops.append(parse_op(slot, fault=True))
            # bias: probe the same and a sibling instance right after
            if rng.random() < 0.7:
                ops.append(parse_op(slot))
            if rng.random() < 0.4:
                ops.append(parse_op(rng.choice(sorted(parsers))))
        elif r < 0.63 and any(o["op"] == "parse" and not o.get("fault") for o in ops):
            cands = [i for i, o in enumerate(ops) if o["op"] == "parse" and not o.get("fault")]
            ops.append({"op": "reinspect", "ref": rng.choice(cands[-4:])})
        else:
            ops.append(parse_op(rng.choice(sorted(parsers))))
    if ops[-1]["op"] != "parse" or ops[-1].get("fault"):
        ops.append(parse_op(rng.choice(sorted(parsers))))
    for op in ops:
        if op["op"] == "build":
            op["b"] = {k: v for k, v in op["b"].items() if k != "_g"}
    return spec, ops, {"family": sc["family"], "actions": use_actions}


# ----------------------------------------------------------------------------


def failing(spec, ops):
    ops = json.loads(json.dumps(ops))
    _, divs = run_history(spec, ops)
    return divs


def minimise(spec, ops, budget_s):
    first = failing(spec, ops)
    if not first:
        return None
    want_op = first[0]["op"]
    deadline = time.monotonic() + budget_s

    def valid(cand):
        # every build needs its grammar, every parse its parser
        gs, ps = set(), set()
        for op in cand:
            if op["op"] == "grammar":
                gs.add(op["g"])
            elif op["op"] == "build":
                if op["g"] not in gs:
                    return False
                ps.add(op["p"])
            elif op["op"] == "parse" and op["p"] not in ps:
                return False
        return True

    def test(cand):
        if not cand or not valid(cand):
            return False
        try:
            return any(d["op"] == want_op for d in failing(spec, cand))
        except HarnessError:
            return False

    ops = json.loads(json.dumps(ops))[: first[0]["i"] + 1]
    if not test(ops):
        return {"spec": spec, "ops": ops, "divergence": first[0], "minimised": False}
    ops = ddmin(ops, test, deadline)
    # shrink inputs of parse ops
    for op in ops:
        if time.monotonic() > deadline:
            break
        if op["op"] == "parse":
            toks = op["input"].split()
            if len(toks) > 1:
                orig = op["input"]

                def t(sub, _op=op):
                    _op["input"] = " ".join(sub)
                    return test(ops)

                best = ddmin(toks, t, deadline)
                op["input"] = " ".join(best)
                if not test(ops):
                    op["input"] = orig
    ds = failing(spec, ops)
    return {"spec": spec, "ops": ops, "divergence": ds[0] if ds else first[0], "minimised": True}


def one_run(vseed, idx, tier):
    from .core import rng_for

    rng = rng_for(vseed, PROP, idx)
    spec, ops, meta = gen_run(rng, tier)
    stats = Stats()
    records, divs = run_history(spec, ops, stats)
    res = {
        "meta": meta,
        "nops": len(ops),
        "digest": digest(records),
        "stats": stats.as_dict(),
        "opseq": digest([[r["op"], r.get("state")] for r in records]),
        "violation": None,
    }
    if divs:
        res["violation"] = {"spec": spec, "ops": ops, "divergence": divs[0]}
    if idx % 499 == 0:
        res["sample"] = {"family": meta["family"], "ops": ops[:14],
                         "states": [r.get("state") for r in records][:14]}
    return res
