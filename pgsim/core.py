"""Shared machinery of the parglare deterministic simulator.

* seeds: one integer (VERIF_SEED) decides every run (run_seed)
* simulated processes: fork children of a pristine, pre-warmed zygote
  (fork_call); a simulated crash is os._exit(137) inside the child
* worker pool with static interleaved partition of run indices, so results do
  not depend on the number of workers (run_pool)
* canonical outcomes / digests, event-log digests
* delta-debugging minimiser over explicit op lists (ddmin)
* evidence / replay file writers

Stdlib only.  parglare is imported from PARGLARE_SRC (default /repo), i.e. from
the current working tree.
"""

import hashlib
import json
import os
import random
import select
import signal
import sys
import time
import traceback

PARGLARE_SRC = os.path.realpath(os.environ.get("PARGLARE_SRC", "/repo"))
VERIF_DIR = os.path.dirname(os.path.dirname(os.path.abspath(__file__)))
SHM = "/dev/shm" if os.path.isdir("/dev/shm") else "/tmp"

CRASH_EXIT = 137  # exit status of a simulated process crash
HARNESS_EXIT = 3  # exit status of a child that hit a harness error


class HarnessError(Exception):
    """Trouble inside the verification machinery (never a VIOLATION)."""


# ----------------------------------------------------------------------------
# bootstrapping


def ensure_hashseed():
    """Re-exec with a fixed PYTHONHASHSEED so that the harness's own dict/set
    behaviour is fixed.  PGSIM_HASHSEED overrides (determinism self-test)."""
    want = os.environ.get("PGSIM_HASHSEED", "0")
    if os.environ.get("PYTHONHASHSEED") != want:
        env = dict(os.environ)
        env["PYTHONHASHSEED"] = want
        os.execve(sys.executable, [sys.executable] + sys.argv, env)


_parglare = None


def import_parglare():
    """Import parglare from PARGLARE_SRC (the working tree) and pre-warm the
    module-global grammar-of-grammars parser (construction only)."""
    global _parglare
    if _parglare is not None:
        return _parglare
    if sys.path[0] != PARGLARE_SRC:
        sys.path.insert(0, PARGLARE_SRC)
    os.environ.setdefault("PARGLARE_VERIF", "1")
    import parglare  # noqa

    src = os.path.realpath(os.path.dirname(os.path.dirname(parglare.__file__)))
    if src != PARGLARE_SRC:
        raise HarnessError(f"parglare imported from {src}, wanted {PARGLARE_SRC}")
    import parglare.grammar

    parglare.grammar.get_grammar_parser(False, False)
    _parglare = parglare
    return parglare


def parglare_dir():
    return os.path.join(PARGLARE_SRC, "parglare")


def tree_id():
    """Short id of the parglare sources under test (content hash)."""
    h = hashlib.sha256()
    base = parglare_dir()
    for root, dirs, files in sorted(os.walk(base)):
        dirs.sort()
        for f in sorted(files):
            if f.endswith(".py"):
                p = os.path.join(root, f)
                h.update(os.path.relpath(p, base).encode())
                with open(p, "rb") as fh:
                    h.update(fh.read())
    return h.hexdigest()[:16]


def sweep_stale_scratch():
    """Remove scratch directories under SHM left behind by killed runs (their
    name carries the pid of the process that owned them)."""
    import re
    import shutil

    try:
        names = os.listdir(SHM)
    except OSError:
        return
    for n in names:
        m = re.match(r"pgsim-[a-z0-9]+-(?:replay-)?(\d+)", n)
        if m and not os.path.exists(f"/proc/{m.group(1)}"):
            shutil.rmtree(os.path.join(SHM, n), ignore_errors=True)


# ----------------------------------------------------------------------------
# seeds


def run_seed(verif_seed, prop, idx):
    s = hashlib.sha256(f"{verif_seed}/{prop}/{idx}".encode()).digest()
    return int.from_bytes(s[:8], "big")


def rng_for(verif_seed, prop, idx):
    return random.Random(run_seed(verif_seed, prop, idx))


def verif_seed():
    try:
        return int(os.environ.get("VERIF_SEED", "0"))
    except ValueError:
        return int.from_bytes(
            hashlib.sha256(os.environ["VERIF_SEED"].encode()).digest()[:4], "big"
        )


# ----------------------------------------------------------------------------
# canonical JSON / digests


def canon(x):
    return json.dumps(x, sort_keys=True, separators=(",", ":"), default=str)


def norm(x):
    """Normalise through JSON (tuples -> lists etc.)."""
    return json.loads(canon(x))


def digest(x):
    return hashlib.sha256(canon(x).encode()).hexdigest()[:16]


def sha_bytes(b):
    return hashlib.sha256(b).hexdigest()[:16]


# ----------------------------------------------------------------------------
# simulated processes


def _read_all(fd, timeout):
    chunks = []
    deadline = time.monotonic() + timeout
    while True:
        left = deadline - time.monotonic()
        if left <= 0:
            return None
        r, _, _ = select.select([fd], [], [], min(left, 5.0))
        if not r:
            continue
        b = os.read(fd, 1 << 16)
        if not b:
            return b"".join(chunks)
        chunks.append(b)


def fork_call(fn, *args, timeout=120.0, quiet=True):
    """Run fn(*args) in a forked child ("simulated process").

    Returns (status, payload): status in {'ok', 'crash', 'harness', 'timeout',
    'died'}; payload is the JSON-normalised return value for 'ok', a traceback
    string for 'harness', the exit status for 'died'.
    """
    r, w = os.pipe()
    sys.stdout.flush()
    sys.stderr.flush()
    pid = os.fork()
    if pid == 0:
        code = 0
        try:
            os.close(r)
            if quiet:
                dn = os.open(os.devnull, os.O_WRONLY)
                os.dup2(dn, 1)
                os.dup2(dn, 2)
            try:
                res = fn(*args)
                data = canon({"r": res}).encode()
            except SystemExit as e:  # parglare.cli calls sys.exit
                data = canon({"r": {"exc": "SystemExit", "code": str(e.code)}}).encode()
            except BaseException:
                data = canon({"h": traceback.format_exc()}).encode()
                code = HARNESS_EXIT
            off = 0
            while off < len(data):
                off += os.write(w, data[off : off + (1 << 16)])
        except BaseException:
            code = HARNESS_EXIT
        finally:
            os._exit(code)
    os.close(w)
    data = _read_all(r, timeout)
    os.close(r)
    if data is None:
        try:
            os.kill(pid, signal.SIGKILL)
        except ProcessLookupError:
            pass
        os.waitpid(pid, 0)
        return "timeout", None
    _, st = os.waitpid(pid, 0)
    if os.WIFEXITED(st):
        ec = os.WEXITSTATUS(st)
        if ec == CRASH_EXIT:
            return "crash", None
        if ec == 0 and data:
            d = json.loads(data)
            return "ok", d["r"]
        if ec == HARNESS_EXIT and data:
            try:
                return "harness", json.loads(data)["h"]
            except Exception:
                return "harness", data.decode(errors="replace")
        return "died", ec
    return "died", -os.WTERMSIG(st)


def call_or_raise(fn, *args, timeout=120.0):
    st, p = fork_call(fn, *args, timeout=timeout)
    if st == "ok":
        return p
    if st == "timeout":
        raise HarnessTimeout(f"child {fn.__name__} timed out")
    raise HarnessError(f"child {fn.__name__}: {st}: {p}")


class HarnessTimeout(HarnessError):
    pass


# ----------------------------------------------------------------------------
# worker pool


def n_workers():
    try:
        n = int(os.environ.get("PGSIM_WORKERS", "0"))
    except ValueError:
        n = 0
    if n <= 0:
        n = min(16, os.cpu_count() or 1)
    return n


POOL_WALL = {"value": 3300.0}  # wall watchdog of one pool batch (main raises it for thorough)


def run_pool(run_fn, indices, workers=None, wall_timeout=None, init_fn=None, fini_fn=None):
    """Execute run_fn(idx) for every idx; returns {idx: result}.

    Static interleaved partition: worker k gets indices[k::workers].  Results
    are keyed by idx, so they do not depend on the worker count.  A worker
    writes one JSON line per finished run to its own file under SHM.  Harness
    errors inside run_fn are reported as {'harness': traceback}.
    """
    indices = list(indices)
    wall_timeout = wall_timeout or POOL_WALL["value"]
    workers = workers or n_workers()
    workers = max(1, min(workers, len(indices)))
    base = os.path.join(SHM, f"pgsim-pool-{os.getpid()}-{time.monotonic_ns()}")
    os.makedirs(base)
    pids = []
    sys.stdout.flush()
    sys.stderr.flush()
    for k in range(workers):
        pid = os.fork()
        if pid == 0:
            code = 0
            try:
                if init_fn:
                    init_fn()
                with open(os.path.join(base, f"w{k}.jsonl"), "w") as out:
                    for idx in indices[k::workers]:
                        try:
                            res = run_fn(idx)
                        except HarnessTimeout as e:
                            res = {"harness_timeout": str(e)}
                        except BaseException:
                            res = {"harness": traceback.format_exc()}
                        out.write(canon({"idx": idx, "res": res}) + "\n")
                        out.flush()
                if fini_fn:
                    fini_fn()
            except BaseException:
                traceback.print_exc()
                code = HARNESS_EXIT
            finally:
                os._exit(code)
        pids.append(pid)
    deadline = time.monotonic() + wall_timeout
    alive = set(pids)
    timed_out = False
    while alive:
        for pid in list(alive):
            p, st = os.waitpid(pid, os.WNOHANG)
            if p:
                alive.discard(pid)
        if alive:
            if time.monotonic() > deadline:
                timed_out = True
                for pid in alive:
                    try:
                        os.kill(pid, signal.SIGKILL)
                    except ProcessLookupError:
                        pass
                for pid in alive:
                    os.waitpid(pid, 0)
                break
            time.sleep(0.02)
    results = {}
    for k in range(workers):
        p = os.path.join(base, f"w{k}.jsonl")
        if os.path.exists(p):
            with open(p) as f:
                for line in f:
                    try:
                        d = json.loads(line)
                    except ValueError:
                        continue
                    results[d["idx"]] = d["res"]
            os.unlink(p)
    try:
        os.rmdir(base)
    except OSError:
        pass
    if timed_out:
        raise HarnessTimeout(
            f"pool wall timeout after {wall_timeout}s: {len(results)}/{len(indices)} runs finished"
        )
    missing = [i for i in indices if i not in results]
    if missing:
        raise HarnessError(f"pool lost {len(missing)} runs, e.g. {missing[:5]}")
    return results


# ----------------------------------------------------------------------------
# delta debugging


def ddmin(items, test, deadline=None):
    """Classic ddmin: smallest sub-list of items for which test(sub) is true.
    test is called on candidate lists; items itself is assumed failing."""
    n = 2
    items = list(items)
    while len(items) >= 2:
        if deadline is not None and time.monotonic() > deadline:
            break
        chunk = max(1, len(items) // n)
        subsets = [items[i : i + chunk] for i in range(0, len(items), chunk)]
        reduced = False
        for i, _sub in enumerate(subsets):
            if deadline is not None and time.monotonic() > deadline:
                break
            comp = [x for j, s in enumerate(subsets) if j != i for x in s]
            if comp and test(comp):
                items = comp
                n = max(n - 1, 2)
                reduced = True
                break
        if not reduced:
            if n >= len(items):
                break
            n = min(len(items), n * 2)
    return items


# ----------------------------------------------------------------------------
# evidence, replays


def write_json(path, obj):
    os.makedirs(os.path.dirname(path), exist_ok=True)
    tmp = path + ".tmp"
    with open(tmp, "w") as f:
        json.dump(obj, f, indent=1, sort_keys=True, default=str)
        f.write("\n")
    os.replace(tmp, path)


def evidence_path(prop):
    d = os.environ.get("PGSIM_EVIDENCE_DIR") or os.path.join(VERIF_DIR, "evidence")
    return os.path.join(d, f"{prop}.json")


def replay_path(prop, seed, idx, tag=""):
    d = os.environ.get("PGSIM_REPLAY_DIR") or os.path.join(VERIF_DIR, "replays")
    os.makedirs(d, exist_ok=True)
    return os.path.join(d, f"{prop}-s{seed}-r{idx}{tag}.json")


def load_known_findings():
    p = os.path.join(VERIF_DIR, "known_findings.json")
    if not os.path.exists(p):
        return []
    with open(p) as f:
        return json.load(f)["findings"]


class Stats:
    """Counter bag merged across runs (sorted, JSON-able)."""

    def __init__(self):
        self.c = {}

    def inc(self, key, n=1):
        self.c[key] = self.c.get(key, 0) + n

    def merge(self, other):
        for k, v in (other.c if isinstance(other, Stats) else other).items():
            self.c[k] = self.c.get(k, 0) + v

    def group(self, prefix):
        return {
            k[len(prefix) :]: v for k, v in sorted(self.c.items()) if k.startswith(prefix)
        }

    def as_dict(self):
        return dict(sorted(self.c.items()))


# ----------------------------------------------------------------------------
# step clock (simulated time for liveness): sys.monitoring, Python >= 3.12


class StepBudgetExceeded(BaseException):
    """Raised from the monitoring callback into the running parglare code."""


class StepClock:
    """Counts PY_START and backward JUMP events of code objects that live under
    the parglare source directory.  Deterministic (no wall time).  When a
    budget is set and exceeded, StepBudgetExceeded is raised into the running
    code at EVERY further tick (an exception raised inside __eq__/__hash__ called
    from C code, e.g. an OrderedDict operation, can surface as another exception
    type or be swallowed), and `exceeded` stays set: harness code must look at
    `exceeded` after the protected region instead of relying on the exception
    type that came out."""

    TOOL = 4

    def __init__(self, budget=None):
        self.prefix = parglare_dir() + os.sep
        self.ticks = 0
        self.budget = budget
        self.exceeded = False
        self._on = False
        self._started_once = False

    def _mine(self, code):
        return code.co_filename.startswith(self.prefix)

    def _py_start(self, code, offset):
        if not self._mine(code):
            return sys.monitoring.DISABLE
        self.ticks += 1
        if self.budget is not None and self.ticks > self.budget:
            self.exceeded = True
            raise StepBudgetExceeded(self.ticks)

    def _jump(self, code, src, dst):
        if dst >= src or not self._mine(code):
            return sys.monitoring.DISABLE
        self.ticks += 1
        if self.budget is not None and self.ticks > self.budget:
            self.exceeded = True
            raise StepBudgetExceeded(self.ticks)

    def start(self, restart=True):
        """restart=False keeps earlier DISABLE answers (code outside parglare) in
        force, which makes switching the clock on and off often much cheaper."""
        m = sys.monitoring
        if m.get_tool(self.TOOL) is None:
            m.use_tool_id(self.TOOL, "pgsim")
        ev = m.events
        m.register_callback(self.TOOL, ev.PY_START, self._py_start)
        m.register_callback(self.TOOL, ev.JUMP, self._jump)
        m.set_events(self.TOOL, ev.PY_START | ev.JUMP)
        if restart or not self._started_once:
            m.restart_events()
        self._started_once = True
        self._on = True
        return self

    def stop(self):
        if self._on:
            m = sys.monitoring
            m.set_events(self.TOOL, 0)
            m.register_callback(self.TOOL, m.events.PY_START, None)
            m.register_callback(self.TOOL, m.events.JUMP, None)
            self._on = False
        return self.ticks

    def reset(self, budget=None):
        self.ticks = 0
        self.budget = budget
        self.exceeded = False


class CpuGuard:
    """Cheap hang guard for simulated processes where liveness is not the
    property under test: raises StepBudgetExceeded after `seconds` of CPU time
    of this process (ITIMER_VIRTUAL).  Its firing never decides a violation: the
    affected comparison is skipped and counted."""

    def __init__(self, seconds):
        self.seconds = seconds

    def _handler(self, signum, frame):
        raise StepBudgetExceeded("cpu")

    def __enter__(self):
        signal.signal(signal.SIGVTALRM, self._handler)
        signal.setitimer(signal.ITIMER_VIRTUAL, self.seconds)
        return self

    def __exit__(self, *a):
        signal.setitimer(signal.ITIMER_VIRTUAL, 0)
        return False
