"""C11 check orchestration."""

from . import c11_recovery as c11
from . import core
from .core import Stats

PROP = "C11"
RUNS = {"quick": 5000, "thorough": 150000}


def check(tier, vseed, args):
    runs = args.runs or RUNS[tier]
    first = args.first or 0
    violations, harness, known = [], [], []
    stats = Stats()

    # known findings: canonical cases first
    import json
    import os

    kf_info = []
    for kf in core.load_known_findings():
        if kf["property"] != PROP:
            continue
        with open(os.path.join(core.VERIF_DIR, kf["replay"])) as f:
            rp = json.load(f)
        rep = c11.failing(rp["spec"], rp.get("jobs") or [rp["job"]], include_known=True)
        kf_info.append({"id": kf["id"], "status": kf["status"], "still_fails": bool(rep)})
        if kf["status"] == "open":
            if rep and rep.get("kf") == kf["id"]:
                known.append(f"KNOWN-FINDING: property={PROP} id={kf['id']} {kf['summary']}")
            elif rep:
                violations.append(_report(rp["spec"], rp.get("jobs") or [rp["job"]], rep, vseed,
                                          f"known-{kf['id']}", tier, minimise=False))
        elif rep:  # fixed entries suppress nothing: regression must pass
            violations.append(_report(rp["spec"], rp.get("jobs") or [rp["job"]], rep, vseed,
                                      f"regress-{kf['id']}", tier, minimise=False))

    def do_run(idx):
        return c11.one_run(vseed, idx, tier)

    res = core.run_pool(do_run, range(first, first + runs))
    digests, sigs, samples, bad = [], set(), [], []
    ticks = 0
    fam = Stats()
    for idx in range(first, first + runs):
        r = res[idx]
        if "harness" in r or "harness_timeout" in r:
            harness.append(f"run {idx}: {r}")
            continue
        stats.merge(r["stats"])
        digests.append([idx, r["digest"]])
        sigs.update(r["sigs"])
        ticks += r["ticks"]
        fam.inc(r["family"])
        if "sample" in r and len(samples) < 3:
            samples.append({"run": idx, **r["sample"]})
        if r["violation"]:
            bad.append((idx, r["violation"]))
    seen = set()
    for idx, v in bad:
        cls = v["report"].get("class")
        if cls in seen or len(violations) >= 3:
            continue
        seen.add(cls)
        violations.append(_report(v["spec"], v["jobs"], v["report"], vseed, idx, tier))
    parses = stats.c.get("parses", 0)
    evidence = {
        "property_id": PROP,
        "level": "exploration",
        "coverage": {
            "evaluations": parses,
            "runs": runs,
            "distinct_nontrivial": len(sigs),
            "rule": ("each run = one pool scenario, 12 parses: a generated sentence damaged by 0..3 "
                     "seeded stream faults (drop, duplicate, swap, substitute, junk, flip a character, "
                     "truncate at a token or character) or a token/junk soup, parsed by LR "
                     "(build_tree) or GLR with error_recovery = default or a simulated strategy peer "
                     "(skip / inject / mixed / give up, decisions from its own PRNG) under the step "
                     "clock; distinct_nontrivial = distinct (parser kind, strategy, outcome class, "
                     "number of errors, set of fired fault kinds) tuples"),
            "samples": samples,
            "seeds": {"VERIF_SEED": vseed, "first_run": first, "runs": runs,
                      "derivation": "sha256(VERIF_SEED/C11/run_index)"},
            "simulated_time_ticks": ticks,
            "stream_faults_fired": stats.group("fault_fired."),
            "fault_free_inputs": stats.c.get("fault_free_inputs", 0),
            "inputs_accepted_without_recovery": stats.c.get("accepted_without_recovery", 0),
            "outcomes": stats.group("outcome."),
            "parser_kinds": stats.group("kind."),
            "strategies": stats.group("mode."),
            "peer_decisions": stats.group("peer."),
            "conservation_checked": stats.c.get("conservation_checked", 0),
            "skipped_build_failed": stats.c.get("skipped_build_failed", 0),
            "skipped_baseline_does_not_terminate": stats.c.get("skipped_baseline_budget", 0),
            "skipped_driver_loop_outside_recovery": stats.c.get(
                "skipped_driver_loop_outside_recovery", 0),
            "reuse_mode": stats.group("reuse."),
            "glr_multi_head_recoveries": stats.c.get("glr_multi_head_recoveries", 0),
            "violations_attributed_to_known_findings": stats.group("attributed."),
            "known_findings": kf_info,
            "families": fam.as_dict(),
            "batch_digest": core.digest(digests),
            "real_vs_stub": {
                "real": ["parglare Grammar, tables, Parser, GLRParser, default_error_recovery, "
                         "error construction, trees/forests"],
                "simulated": ["damaged input stream", "recovery strategy peer", "step clock "
                              "(sys.monitoring PY_START + backward JUMP in parglare code)"],
                "bypassed": [],
            },
        },
        "assumptions": [
            "peers keep the contract of a sane strategy: never move backwards, inject only expected "
            "terminals, at most 4 injections per parse",
            "step budget 200*(T0+2000)+100*len(input)^2 ticks is far above any terminating recovery",
        ],
    }
    return {"violations": violations, "known": known, "evidence": evidence,
            "harness_problems": harness}


def _report(spec, jobs, rep, vseed, idx, tier, minimise=True):
    from .main import confirm_replay

    budget = 60 if tier == "quick" else 300
    rp = {"property": PROP, "seed": vseed, "run": idx, "spec": spec, "jobs": jobs, "report": rep,
          "minimised": False,
          "how": "jobs are the parses of one simulated process in order; the last one fails"}
    m = None
    try:
        if minimise:
            m = c11.minimise(spec, jobs, budget)
    except core.HarnessError:
        m = None
    if m:
        rp.update(jobs=m["jobs"], report=m["report"], minimised=True)
    path = core.replay_path(PROP, vseed, idx)
    core.write_json(path, rp)
    ok = confirm_replay(path)
    r = rp["report"]
    j = rp["jobs"][-1]
    return {"replay": path, "confirmed": ok,
            "summary": f"{r.get('class')}: {r['probs'][0][:160]} | input={j['input']!r} "
                       f"kind={j['cfg']['kind']} recovery={j['recovery']} "
                       f"preceding_parses={len(rp['jobs']) - 1} replay_confirmed={ok}"}


def replay(rp):
    rep = c11.failing(rp["spec"], rp.get("jobs") or [rp["job"]], include_known=True)
    failed = bool(rep) and not rep.get("kf")
    return failed, {"report": rep}
