"""C16 worker: runs in a FRESH interpreter whose PYTHONHASHSEED was set by the
simulator.  Reads a JSON work list, builds every item's tables and forests
(twice: the second time after all other items, in a seed-shuffled order) and
writes canonical digests.

usage: c16_worker.py <items.json> <out.json>
"""

import hashlib
import json
import os
import random
import sys

sys.path.insert(0, os.path.dirname(os.path.dirname(os.path.abspath(__file__))))

from pgsim import core  # noqa: E402


def sha(s):
    if isinstance(s, str):
        s = s.encode()
    return hashlib.sha256(s).hexdigest()[:16]


def build_item(item, tmpdir, full=False):
    from parglare import GLRParser, Grammar, Parser
    from parglare.closure import LR_0, LR_1
    from parglare.tables import create_table
    from parglare.tables.persist import save_table, table_to_serializable

    from pgsim import pool
    from pgsim.outcome import parse_outcome

    out = {}
    try:
        if item.get("file"):
            g = Grammar.from_file(item["file"], _no_check_recognizers=True)
        else:
            recs = {k: pool.RECOGNIZERS[v] for k, v in (item.get("recs") or {}).items()}
            g = Grammar.from_string(item["text"], recognizers=recs or None)
    except Exception as e:
        return {"grammar": type(e).__name__}
    for ti, t in enumerate(item["tables"]):
        key = f"t{ti}"
        try:
            kw = {}
            if t.get("ld") is not None:
                kw["lexical_disambiguation"] = t["ld"]
            table = create_table(
                g,
                itemset_type=LR_0 if t["tables"] == "SLR" else LR_1,
                prefer_shifts=t["ps"],
                prefer_shifts_over_empty=t["pse"],
                **kw,
            )
        except Exception as e:
            out[key] = {"exc": type(e).__name__}
            continue
        ser = json.dumps(table_to_serializable(table), sort_keys=True)
        f = os.path.join(tmpdir, "t.pgc")
        save_table(f, table)
        with open(f, "rb") as fh:
            b = fh.read()
        conf = [
            [[c.state.state_id, c.term.fqn, [p.prod_id for p in c.productions]] for c in cs]
            for cs in (table.sr_conflicts, table.rr_conflicts)
        ]
        d = {"table": sha(ser), "bytes": sha(b), "conflicts": sha(json.dumps(conf)),
             "nstates": len(table.states), "nconf": [len(conf[0]), len(conf[1])]}
        if full:
            d["table_full"] = json.loads(ser)
            d["conflicts_full"] = conf
        out[key] = d
    if item.get("inputs") and not item.get("file"):
        for kind in ("glr", "lr"):
            try:
                cls = GLRParser if kind == "glr" else Parser
                p = cls(g, **({"build_tree": True} if kind == "lr" else {}))
            except Exception as e:
                out[kind] = {"exc": type(e).__name__}
                continue
            res = []
            for x in item["inputs"]:
                o = parse_outcome(p, x, ntrees=50)
                res.append(o if full else sha(json.dumps(o, sort_keys=True)))
            out[kind] = res
    return out


def symbol_orders(probe_texts):
    from parglare import Grammar

    orders = []
    for t in probe_texts:
        g = Grammar.from_string(t)
        s = set(g.terminals.values()) | set(g.nonterminals.values())
        orders.append([x.fqn for x in s])
    return sha(json.dumps(orders))


def main():
    with open(sys.argv[1]) as f:
        work = json.load(f)
    core.import_parglare()
    tmpdir = work["tmpdir"]
    os.makedirs(tmpdir, exist_ok=True)
    items = work["items"]
    full = work.get("full", False)
    first = [build_item(it, tmpdir, full) for it in items]
    order = list(range(len(items)))
    random.Random(work.get("shuffle_seed", 0)).shuffle(order)
    second = [None] * len(items)
    for i in order:
        second[i] = build_item(items[i], tmpdir, full)
    res = {
        "hashseed": os.environ.get("PYTHONHASHSEED"),
        "first": first,
        "second": second,
        "orders": symbol_orders(work.get("order_probes", [])),
    }
    with open(sys.argv[2], "w") as f:
        json.dump(res, f, sort_keys=True)


if __name__ == "__main__":
    main()
