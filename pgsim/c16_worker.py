"""C16 worker: runs in a FRESH interpreter whose PYTHONHASHSEED was set by the
simulator.  Reads a JSON work list, builds every item's tables and forests
(twice: the second time after all other items, in a seed-shuffled order) and
writes canonical digests.

usage: c16_worker.py <items.json> <out.json>
"""

import hashlib
import json
import os
import random
import sys

sys.path.insert(0, os.path.dirname(os.path.dirname(os.path.abspath(__file__))))

from pgsim import core  # noqa: E402


def sha(s):
    if isinstance(s, str):
        s = s.encode()
    return hashlib.sha256(s).hexdigest()[:16]


PARSE_BUDGET = 1_500_000
CLOCK = None

DEFAULT_PARSERS = [
    {"name": "glr", "kind": "glr"},
    {"name": "lr", "kind": "lr", "opts": {"build_tree": True}},
    {"name": "glr-prefixes", "kind": "glr", "opts": {"consume_input": False}},
    {"name": "glr-recovery", "kind": "glr", "opts": {"error_recovery": True}},
    {"name": "glr-lexdis", "kind": "glr", "ld": True},
    {"name": "glr-loaded", "kind": "glr", "loaded": True},
    {"name": "glr-ctr", "kind": "glr", "ctr": True},
    {"name": "lr-prefix-recovery", "kind": "lr",
     "opts": {"build_tree": True, "consume_input": False, "error_recovery": True}},
]


def build_item(item, tmpdir, full=False):
    from parglare import GLRParser, Grammar, Parser
    from parglare.closure import LR_0, LR_1
    from parglare.tables import create_table
    from parglare.tables.persist import load_table, save_table, table_to_serializable

    from pgsim import pool
    from pgsim.outcome import parse_outcome

    out = {}
    try:
        if item.get("file"):
            g = Grammar.from_file(item["file"], _no_check_recognizers=True)
        elif item.get("files"):
            import shutil

            d = os.path.join(tmpdir, "files")
            shutil.rmtree(d, ignore_errors=True)
            os.makedirs(d)
            for name, text in item["files"].items():
                with open(os.path.join(d, name), "w") as fh:
                    fh.write(text)
            g = Grammar.from_file(os.path.join(d, "g.pg"))
        else:
            recs = {k: pool.RECOGNIZERS[v] for k, v in (item.get("recs") or {}).items()}
            g = Grammar.from_string(item["text"], recognizers=recs or None)
    except Exception as e:
        return {"grammar": type(e).__name__}
    def make_table(t, grammar=None):
        grammar = grammar or g
        kw = {}
        if t.get("ld") is not None:
            kw["lexical_disambiguation"] = t["ld"]
        if t.get("start"):
            # another entry point of the same grammar (create_table's documented
            # start_production parameter)
            pid = grammar.get_production_id(t["start"])
            if pid is not None:
                kw["start_production"] = pid
        return create_table(
            grammar,
            itemset_type=LR_0 if t["tables"] == "SLR" else LR_1,
            prefer_shifts=t["ps"],
            prefer_shifts_over_empty=t["pse"],
            **kw,
        )

    kept = []
    for ti, t in enumerate(item["tables"]):
        key = f"t{ti}"
        try:
            table = make_table(t)
        except Exception as e:
            out[key] = {"exc": type(e).__name__}
            continue
        kept.append((key, t, table))
        ser = json.dumps(table_to_serializable(table), sort_keys=True)
        f = os.path.join(tmpdir, "t.pgc")
        save_table(f, table)
        with open(f, "rb") as fh:
            b = fh.read()
        conf = [
            [[c.state.state_id, c.term.fqn, [p.prod_id for p in c.productions]] for c in cs]
            for cs in (table.sr_conflicts, table.rr_conflicts)
        ]
        d = {"table": sha(ser), "bytes": sha(b), "conflicts": sha(json.dumps(conf)),
             "nstates": len(table.states), "nconf": [len(conf[0]), len(conf[1])]}
        # "cached tables mean the same thing in every process": the table a process
        # LOADS from the saved file reports the same conflicts, in the same order,
        # as the table of the process that computed it
        try:
            loaded = load_table(f, g)
            lconf = [
                [[c.state.state_id, c.term.fqn, [p.prod_id for p in c.productions]] for c in cs]
                for cs in (loaded.sr_conflicts, loaded.rr_conflicts)
            ]
            d["loaded_same_conflicts"] = lconf == conf
        except Exception as e:
            d["loaded_same_conflicts"] = type(e).__name__
        if full:
            d["table_full"] = json.loads(ser)
            d["conflicts_full"] = conf
        out[key] = d
    # repeated construction in ONE process on the SAME Grammar object: a table
    # object must not change when other tables are built later, and building
    # the same configuration again must give the same table
    for key, t, table in kept:
        after = sha(json.dumps(table_to_serializable(table), sort_keys=True))
        try:
            again = sha(json.dumps(table_to_serializable(make_table(t)), sort_keys=True))
        except Exception as e:
            again = type(e).__name__
        out[key]["same_after_later_builds"] = after == out[key]["table"]
        out[key]["same_when_built_again"] = again == out[key]["table"]
        if item.get("text") is not None:
            # ... and the same table as on a Grammar object that has built nothing yet
            try:
                recs = {k: pool.RECOGNIZERS[v] for k, v in (item.get("recs") or {}).items()}
                g2 = Grammar.from_string(item["text"], recognizers=recs or None)
                fresh = sha(json.dumps(table_to_serializable(make_table(t, g2)), sort_keys=True))
            except Exception as e:
                fresh = type(e).__name__
            out[key]["same_as_on_fresh_grammar"] = fresh == out[key]["table"]
    if item.get("files") and item.get("pge") is not None:
        # the caches a process writes next to the grammar (.pgc table, .pgec compiled
        # error hints) must be byte-identical in every process, and what a parser
        # built from them reports (hints included) must be the same
        import shutil

        for kind, cls in (("lr", Parser), ("glr", GLRParser)):
            d = os.path.join(tmpdir, "cache-" + kind)
            shutil.rmtree(d, ignore_errors=True)
            os.makedirs(d)
            for name, text in item["files"].items():
                with open(os.path.join(d, name), "w") as fh:
                    fh.write(text)
            with open(os.path.join(d, "g.pge"), "w") as fh:
                fh.write(item["pge"])
            rec = {}
            try:
                p1 = cls(Grammar.from_file(os.path.join(d, "g.pg")))  # writes the caches
                p2 = cls(Grammar.from_file(os.path.join(d, "g.pg")))  # loads them
                for suffix in ("pgc", "pgec"):
                    fp = os.path.join(d, "g." + suffix)
                    if os.path.exists(fp):
                        with open(fp, "rb") as fh:
                            rec[suffix] = sha(fh.read())
                o1 = [parse_outcome(p1, x, (d,)) for x in item["inputs"]]
                o2 = [parse_outcome(p2, x, (d,)) for x in item["inputs"]]
                rec["outcomes"] = o1 if full else sha(json.dumps(o1, sort_keys=True))
                rec["loaded_same_as_computed"] = {"same": o1 == o2}
            except Exception as e:
                rec["exc"] = type(e).__name__
            out["cache-" + kind] = rec
            shutil.rmtree(d, ignore_errors=True)
    if item.get("inputs") and not item.get("file"):
        from parglare.tables import create_table as _ct

        for pc in item.get("parsers") or DEFAULT_PARSERS:
            key = pc["name"]
            if item.get("cyclic") and pc["kind"] == "lr":
                continue  # the LR driver does not terminate on cyclic grammars
            try:
                cls = GLRParser if pc["kind"] == "glr" else Parser
                # a precomputed table keeps the table cache out of this check
                lr = pc["kind"] == "lr"
                kw = {}
                if pc.get("ld") is not None:
                    kw["lexical_disambiguation"] = pc["ld"]
                elif not lr:
                    kw["lexical_disambiguation"] = False
                table = _ct(g, prefer_shifts=lr, prefer_shifts_over_empty=lr, **kw)
                if pc.get("loaded"):
                    # the same table as another process would get it: through the file
                    f = os.path.join(tmpdir, "p.pgc")
                    save_table(f, table)
                    table = load_table(f, g)
                opts = dict(pc.get("opts", {}))
                if pc.get("ctr"):
                    from pgsim.peers import custom_token_recognition

                    opts["custom_token_recognition"] = custom_token_recognition
                p = cls(g, table=table, **opts)
                if lr and (table.sr_conflicts or table.rr_conflicts):
                    out[key] = {"exc": "conflicts"}
                    continue
            except Exception as e:
                out[key] = {"exc": type(e).__name__}
                continue
            res = []
            for x in item["inputs"]:
                # deterministic step budget per parse: the LR driver loops forever
                # (and eats memory) on cyclic grammars and on some tables whose
                # conflicts were resolved by prefer_shifts
                guarded = pc["kind"] == "lr"  # GLR terminates; keep the clock off there
                CLOCK.reset(PARSE_BUDGET)
                if guarded:
                    CLOCK.start(restart=False)
                try:
                    o = parse_outcome(p, x, ntrees=50, with_errors=bool(pc.get("opts", {}).get(
                        "error_recovery")))
                except core.StepBudgetExceeded:
                    o = {"exc": "StepBudgetExceeded"}
                finally:
                    if guarded:
                        CLOCK.stop()
                if CLOCK.exceeded:
                    o = {"exc": "StepBudgetExceeded"}
                res.append(o if full else sha(json.dumps(o, sort_keys=True)))
            out[key] = res
        # forest[i] must mean the same tree whether the table was computed here or
        # loaded from the file another process saved
        if isinstance(out.get("glr"), list) and isinstance(out.get("glr-loaded"), list):
            out["glr-loaded-same-as-computed"] = {"same": out["glr"] == out["glr-loaded"]}
    return out


def symbol_orders(probe_texts):
    from parglare import Grammar

    orders = []
    for t in probe_texts:
        g = Grammar.from_string(t)
        s = set(g.terminals.values()) | set(g.nonterminals.values())
        orders.append([x.fqn for x in s])
    return sha(json.dumps(orders))


def main():
    with open(sys.argv[1]) as f:
        work = json.load(f)
    core.import_parglare()
    global CLOCK
    CLOCK = core.StepClock()
    try:  # a runaway item must hit MemoryError, not the machine's OOM killer
        import resource

        resource.setrlimit(resource.RLIMIT_AS, (8 * 2**30, 8 * 2**30))
    except Exception:
        pass
    tmpdir = work["tmpdir"]
    os.makedirs(tmpdir, exist_ok=True)
    items = work["items"]
    full = work.get("full", False)
    first = [build_item(it, tmpdir, full) for it in items]
    order = list(range(len(items)))
    random.Random(work.get("shuffle_seed", 0)).shuffle(order)
    second = [None] * len(items)
    for i in order:
        second[i] = build_item(items[i], tmpdir, full)
    res = {
        "hashseed": os.environ.get("PYTHONHASHSEED"),
        "first": first,
        "second": second,
        "orders": symbol_orders(work.get("order_probes", [])),
    }
    with open(sys.argv[2], "w") as f:
        json.dump(res, f, sort_keys=True)


if __name__ == "__main__":
    main()
