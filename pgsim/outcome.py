"""Canonical, JSON-able outcomes of parglare operations.

Values and errors only: no id()/repr, no absolute paths, no timing, no raw
callback traces.  Runs inside simulated processes (children)."""

import os


_ADDR = __import__("re").compile(r"0x[0-9a-fA-F]{6,}")


def _strip(s, roots):
    for r in roots:
        if r:
            s = s.replace(r, "<root>")
    # memory addresses (repr of functions/objects inside messages, e.g. the
    # TypeError wrapper of call_actions) differ from process to process
    return _ADDR.sub("0x?", s)


def exc_outcome(e, roots=()):
    """Outcome for an exception raised by parglare (or by user callbacks)."""
    out = {"exc": type(e).__name__}
    loc = getattr(e, "location", None)
    if loc is not None:
        out["start"] = getattr(loc, "start_position", None)
        out["end"] = getattr(loc, "end_position", None)
    if hasattr(e, "symbols_expected"):
        try:
            out["expected"] = sorted(s.name for s in e.symbols_expected)
        except Exception as ex:  # pragma: no cover
            out["expected"] = f"!{type(ex).__name__}"
        out["ahead"] = sorted(
            f"{t.symbol.name}:{t.value}" for t in (getattr(e, "tokens_ahead", None) or [])
        )
        out["hint"] = getattr(e, "hint", None)
    if hasattr(e, "tokens") and type(e).__name__ == "DisambiguationError":
        out["tokens"] = sorted(f"{t.symbol.name}:{t.value}" for t in e.tokens)
    if hasattr(e, "conflicts"):
        out["conflicts"] = [
            [c.state.state_id, c.term.name, [p.prod_id for p in c.productions]]
            for c in e.conflicts
        ]
    elif type(e).__name__ == "DynamicDisambiguationConflict":
        # its message prints LR items with their follow *sets* (hash-seed
        # dependent free text): keep the structured part only
        out["state"] = getattr(getattr(e, "state", None), "state_id", None)
        out["token"] = str(getattr(e, "token", None))
        out["actions"] = [str(a) for a in getattr(e, "actions", [])]
    else:
        try:
            out["str"] = _strip(str(e), roots)
        except Exception as ex:
            out["str"] = f"!str failed: {type(ex).__name__}"
    return out


def value_outcome(x, depth=0):
    """Structural walk of a parse result (nested lists, strings, numbers,
    parse-tree nodes, dynamically created objects)."""
    if depth > 200:
        return "<deep>"
    if x is None or isinstance(x, (bool, int, float, str)):
        return x
    if isinstance(x, (list, tuple)):
        return [value_outcome(i, depth + 1) for i in x]
    if isinstance(x, dict):
        return {str(k): value_outcome(v, depth + 1) for k, v in sorted(x.items(), key=lambda kv: str(kv[0]))}
    if hasattr(x, "_pg_children_names"):
        return {
            "cls": type(x).__name__,
            "span": [getattr(x, "_pg_start_position", None), getattr(x, "_pg_end_position", None)],
            "attrs": {
                n: value_outcome(getattr(x, n, None), depth + 1) for n in x._pg_children_names
            },
        }
    if hasattr(x, "to_str") and (hasattr(x, "is_term") or hasattr(x, "root")):
        return {"tree": x.to_str()}
    return {"obj": type(x).__name__}


def forest_outcome(forest, ntrees=10):
    out = {"forest": True}
    try:
        n = forest.solutions  # not len(): the count may exceed sys.maxsize
        out["len"] = n if n < 2**62 else str(n)
    except Exception as e:
        out["len"] = {"exc": type(e).__name__}
        n = 0
    try:
        out["amb"] = forest.ambiguities
    except Exception as e:
        out["amb"] = {"exc": type(e).__name__}
    trees = []
    for i in range(min(n, ntrees)):
        try:
            trees.append(forest[i].to_str())
        except Exception as e:
            trees.append({"exc": type(e).__name__})
    out["trees"] = trees
    return out


def errors_outcome(parser):
    errs = getattr(parser, "errors", None)
    if errs is None:
        return None
    out = []
    for e in errs:
        loc = e.location
        out.append([loc.start_position, loc.end_position])
    return out


def result_outcome(res, ntrees=10):
    """Canonical view of a value returned by parse (forest / tree / value)."""
    if type(res).__name__ == "Forest":
        return forest_outcome(res, ntrees)
    return {"result": value_outcome(res)}


def parse_outcome(parser, text, roots=(), ntrees=10, with_errors=False, call_actions=False,
                  keep=None, parse_kwargs=None):
    """Parse text; returns canonical outcome.  keep: list receiving the raw result."""
    try:
        res = parser.parse(text, **(parse_kwargs or {}))
    except Exception as e:
        out = exc_outcome(e, roots)
        return out
    if keep is not None:
        keep.append(res)
    if type(res).__name__ == "Forest":
        out = forest_outcome(res, ntrees)
        if call_actions:
            try:
                n = out["len"] if isinstance(out["len"], int) else 0
                out["actions"] = [
                    value_outcome(parser.call_actions(res[i])) for i in range(min(n, 3))
                ]
            except Exception as e:
                out["actions"] = exc_outcome(e, roots)
    else:
        out = {"result": value_outcome(res)}
        if call_actions and hasattr(res, "to_str"):
            try:
                out["actions"] = value_outcome(parser.call_actions(res))
            except Exception as e:
                out["actions"] = exc_outcome(e, roots)
    if with_errors:
        out["errors"] = errors_outcome(parser)
    return out


def table_digest(table):
    import hashlib
    import json

    from parglare.tables.persist import table_to_serializable

    try:
        s = json.dumps(table_to_serializable(table), sort_keys=True)
    except Exception as e:
        return f"!{type(e).__name__}"
    return hashlib.sha256(s.encode()).hexdigest()[:16]


def build_kwargs(opts):
    """Translate JSON construction options to Parser kwargs."""
    from parglare.tables import LALR, SLR

    kw = {}
    for k in ("prefer_shifts", "prefer_shifts_over_empty", "lexical_disambiguation"):
        if opts.get(k) is not None:
            kw[k] = opts[k]
    if opts.get("tables") == "SLR":
        kw["tables"] = SLR
    elif opts.get("tables") == "LALR":
        kw["tables"] = LALR
    for k in ("build_tree", "consume_input", "call_actions_during_tree_build", "debug_colors",
              "return_position", "debug"):
        if k in opts:
            kw[k] = opts[k]
    if "ws" in opts:
        kw["ws"] = opts["ws"]
    return kw


def realroot(p):
    return os.path.realpath(p)
