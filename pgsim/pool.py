"""Workload pool: a small structured model of a grammar, rendered to parglare's
grammar language, from which random sentences (token lists) are derived by the
model itself (never by parglare), plus input-stream damage operators, layout,
recording actions, harness recognizers and a stateful dynamic filter.

Everything a simulator needs from here ends up as explicit strings inside an
explicit JSON "spec", so replay files never depend on this generator.
"""

import re

# ----------------------------------------------------------------------------
# model


class Term:
    def __init__(self, name, kind, text, samples, meta="", inline=None):
        # kind: 'str' literal text, 're' regex source, 'rec' empty body (harness
        # recognizer, text = recognizer name)
        self.name, self.kind, self.text = name, kind, text
        self.samples = list(samples)
        self.meta = meta
        self.inline = (kind == "str" and name == text) if inline is None else inline


class Item:
    def __init__(self, sym, mult="", sep=None, assign=None):
        self.sym, self.mult, self.sep, self.assign = sym, mult, sep, assign


class Alt:
    def __init__(self, items, meta=""):
        self.items = [i if isinstance(i, Item) else Item(i) for i in items]
        self.meta = meta


class Rule:
    def __init__(self, name, alts, meta="", action=None):
        self.name = name
        self.alts = [a if isinstance(a, Alt) else Alt(a) for a in alts]
        self.meta = meta
        self.action = action


LAYOUT_COMMENTS = r"""
LAYOUT: LayoutItem | LAYOUT LayoutItem | EMPTY;
LayoutItem: WS | Comment;
"""
LAYOUT_TERMS = r"""WS: /\s+/;
Comment: /\/\/[^\n]*|\/\*[^*]*\*\//;
"""


# LAYOUT with a multi-token item: nested block comments are parsed by rules, so the
# layout sub-parser (a second LR parser on the same grammar) can itself hit an error
LAYOUT_NESTED = r"""
LAYOUT: LayoutItem | LAYOUT LayoutItem | EMPTY;
LayoutItem: WS | Comment;
Comment: '/*' CorNCs '*/' | LineComment;
CorNCs: CorNC | CorNCs CorNC | EMPTY;
CorNC: Comment | NotComment | WS;
"""
LAYOUT_NESTED_TERMS = r"""WS: /\s+/;
LineComment: /\/\/[^\n]*/;
NotComment: /[a-z]+/;
"""


def is_nested_layout(s):
    """Is s a string of the nested-comment layout language (whitespace, // line
    comments, properly nested /* */ block comments that contain only lower-case
    words, whitespace and comments - anything else inside a block comment is an
    error of the LAYOUT sub-parser in the MIDDLE of the input)?"""
    i, n, depth = 0, len(s), 0
    while i < n:
        if s.startswith("/*", i):
            depth += 1
            i += 2
        elif depth and s.startswith("*/", i):
            depth -= 1
            i += 2
        elif depth and s.startswith("//", i):
            j = s.find("\n", i)
            i = n if j < 0 else j
        elif depth:
            if not (s[i].isspace() or "a" <= s[i] <= "z"):
                return False
            i += 1
        elif s[i].isspace():
            i += 1
        elif s.startswith("//", i):
            j = s.find("\n", i)
            i = n if j < 0 else j
        else:
            return False
    return depth == 0


class GModel:
    def __init__(self, rules, terms, layout="ws", keyword=None, imports=None):
        self.rules = rules
        self.terms = {t.name: t for t in terms}
        self.layout = layout  # 'ws' or 'comments'
        self.keyword = keyword  # regex source or None
        self.rule_by_name = {r.name: r for r in rules}
        self._minh = None

    # -- rendering ---------------------------------------------------------

    def _ref(self, name):
        t = self.terms.get(name)
        if t is not None and t.inline:
            return quote(t.text)
        return name

    def _item(self, it):
        s = self._ref(it.sym)
        if it.mult:
            s += it.mult
            if it.sep:
                s += f"[{it.sep}]"
        if it.assign:
            s = f"{it.assign[0]}{it.assign[1]}{s}"
        return s

    def render(self):
        out = []
        for r in self.rules:
            alts = []
            for a in r.alts:
                body = " ".join(self._item(i) for i in a.items) if a.items else "EMPTY"
                if a.meta:
                    body += " {" + a.meta + "}"
                alts.append(body)
            head = r.name + (" {" + r.meta + "}" if r.meta else "")
            if r.action:
                out.append(f"@{r.action}")
            out.append(f"{head}: " + "\n  | ".join(alts) + ";")
        if self.layout == "comments":
            out.append(LAYOUT_COMMENTS.strip())
        elif self.layout == "nested":
            out.append(LAYOUT_NESTED.strip())
        terms = []
        for t in self.terms.values():
            if t.inline:
                continue
            if t.kind == "str":
                body = quote(t.text)
            elif t.kind == "re":
                body = "/" + t.text.replace("/", r"\/") + "/"
            else:
                body = ""
            meta = " {" + t.meta + "}" if t.meta else ""
            terms.append(f"{t.name}: {body}{meta};")
        if self.keyword:
            terms.append(f"KEYWORD: /{self.keyword}/;")
        if self.layout == "comments":
            terms.append(LAYOUT_TERMS.strip())
        elif self.layout == "nested":
            terms.append(LAYOUT_NESTED_TERMS.strip())
        if terms:
            out.append("terminals")
            out.extend(terms)
        return "\n".join(out) + "\n"

    # -- sentence derivation ----------------------------------------------

    def minh(self):
        if self._minh is None:
            INF = 10**6
            h = {r.name: INF for r in self.rules}

            def item_h(it):
                if it.mult in ("?", "*"):
                    return 0
                if it.sym in self.terms:
                    return 0
                return h[it.sym]

            changed = True
            while changed:
                changed = False
                for r in self.rules:
                    for a in r.alts:
                        v = 1 + max([item_h(i) for i in a.items], default=0)
                        if v < h[r.name]:
                            h[r.name] = v
                            changed = True
            self._minh = h
        return self._minh

    def alt_h(self, a):
        h = self.minh()
        m = 0
        for it in a.items:
            if it.mult in ("?", "*") or it.sym in self.terms:
                continue
            m = max(m, h[it.sym])
        return 1 + m

    def sentence(self, rng, depth=5, start=None):
        """Random derivation -> list of (terminal name, lexeme)."""
        out = []
        start = start or self.rules[0].name
        if self.minh()[start] >= 10**6:
            # the start symbol derives no sentence (unproductive grammar): token soup
            lex = self.all_lexemes()
            return [("<soup>", rng.choice(lex)) for _ in range(rng.randint(1, 6))]
        self._expand(rng, start, depth, out)
        return out

    def _expand(self, rng, sym, depth, out):
        t = self.terms.get(sym)
        if t is not None:
            out.append((t.name, rng.choice(t.samples)))
            return
        r = self.rule_by_name[sym]
        # never walk into an alternative that cannot derive a string
        alts = [a for a in r.alts if self.alt_h(a) < 10**6]
        if not alts:
            return
        if depth <= 0 or len(out) > 40:
            mh = min(self.alt_h(a) for a in alts)
            alts = [a for a in alts if self.alt_h(a) == mh]
        a = rng.choice(alts)
        for it in a.items:
            if it.mult == "?":
                n = rng.randint(0, 1) if depth > 0 else 0
            elif it.mult == "*":
                n = rng.choice([0, 0, 1, 2, 3]) if depth > 0 else 0
            elif it.mult == "+":
                n = rng.choice([1, 1, 2, 3]) if depth > 0 else 1
            else:
                n = 1
            for k in range(n):
                if k and it.sep:
                    self._expand(rng, it.sep, depth - 1, out)
                self._expand(rng, it.sym, depth - 1, out)

    def nts(self):
        return [r.name for r in self.rules]

    def nullable(self):
        nul = set()
        changed = True
        while changed:
            changed = False
            for r in self.rules:
                if r.name in nul:
                    continue
                for a in r.alts:
                    if all(i.mult in ("?", "*") or i.sym in nul for i in a.items):
                        nul.add(r.name)
                        changed = True
                        break
        return nul

    def is_cyclic(self):
        """Does some nonterminal derive itself (A =>+ A)?"""
        nul = self.nullable()
        edges = {r.name: set() for r in self.rules}
        for r in self.rules:
            for a in r.alts:
                for k, it in enumerate(a.items):
                    if it.sym in self.terms:
                        continue
                    rest = a.items[:k] + a.items[k + 1:]
                    if all(i.mult in ("?", "*") or i.sym in nul for i in rest):
                        edges[r.name].add(it.sym)
        for start in edges:
            seen, stack = set(), list(edges[start])
            while stack:
                x = stack.pop()
                if x == start:
                    return True
                if x not in seen:
                    seen.add(x)
                    stack.extend(edges.get(x, ()))
        return False

    def all_lexemes(self):
        return sorted({s for t in self.terms.values() for s in t.samples})


def quote(s):
    return "'" + s.replace("\\", "\\\\").replace("'", "\\'") + "'"


# ----------------------------------------------------------------------------
# layout and damage


def _wordy(c):
    return c.isalnum() or c == "_" or c == "."


def layout_tokens(rng, toks, layout="ws", fancy=0.3):
    """Join lexemes with seeded layout.  Returns the input string."""
    parts = []

    def filler(needed):
        r = rng.random()
        if r > fancy:
            return " "
        opts = ["  ", "\n", "\t", " \n ", "   "]
        if not needed:
            opts.append("")
        if layout == "comments":
            opts += [" // c\n", " /* c */ ", "/* x y */", "\n// k\n"]
        elif layout == "nested":
            opts += [" // c\n", " /* c */ ", "/* x /* y */ z */", "/* a b */", "\n// k\n",
                     " /* /* */ */ "]
        return rng.choice(opts)

    if rng.random() < fancy:
        parts.append(filler(False))
    prev = None
    for _, lex in toks:
        if prev is not None:
            needed = _wordy(prev[-1]) and _wordy(lex[0])
            parts.append(filler(needed))
        parts.append(lex)
        prev = lex
    if rng.random() < fancy:
        parts.append(filler(False))
    return "".join(parts)


def damage_layout(rng, text):
    """Corrupt the LAYOUT itself: a character that no comment may contain is put
    inside a block comment (an error of the layout sub-parser in mid-input).
    Returns the new text or None if there is no block comment."""
    starts = [i for i in range(len(text) - 1) if text.startswith("/*", i)]
    if not starts:
        return None
    i = rng.choice(starts) + 2
    return text[:i] + rng.choice([" 7 ", "$", " + ", "9"]) + text[i:]


JUNK = ["@", "#", "$$", "~", "?", "&", "!!", "`", "\\", "§"]
DAMAGE_KINDS = [
    "drop",
    "dup",
    "swap",
    "subst",
    "junk",
    "flip",
    "trunc_tok",
    "trunc_char",
]


def damage(rng, toks, model, kinds, n):
    """Apply up to n stream faults to a token list.  Returns (toks, fired) where
    fired is the list of fault kinds that actually changed something;
    'trunc_char' is returned as a marker to be applied after layout."""
    toks = list(toks)
    fired = []
    lexemes = model.all_lexemes()
    for _ in range(n):
        if not kinds:
            break
        k = rng.choice(kinds)
        if k == "trunc_char":
            fired.append(k)
            continue
        if not toks:
            if k in ("junk", "subst"):
                toks.insert(0, ("<junk>", rng.choice(JUNK)))
                fired.append("junk")
            continue
        i = rng.randrange(len(toks))
        if k == "drop":
            del toks[i]
        elif k == "dup":
            toks.insert(i, toks[i])
        elif k == "swap":
            if len(toks) < 2:
                continue
            j = min(i + 1, len(toks) - 1)
            i = j - 1
            if toks[i] == toks[j]:
                continue
            toks[i], toks[j] = toks[j], toks[i]
        elif k == "subst":
            new = rng.choice(lexemes)
            if new == toks[i][1]:
                continue
            toks[i] = ("<subst>", new)
        elif k == "junk":
            toks.insert(rng.randrange(len(toks) + 1), ("<junk>", rng.choice(JUNK)))
        elif k == "flip":
            lex = toks[i][1]
            p = rng.randrange(len(lex))
            c = rng.choice("x9_;(+ @")
            if lex[p] == c:
                continue
            toks[i] = ("<flip>", lex[:p] + c + lex[p + 1 :])
        elif k == "trunc_tok":
            toks = toks[:i]
        fired.append(k)
    return toks, fired


# ----------------------------------------------------------------------------
# harness recognizers (bound to empty-body terminals), by name


def rec_digits(input, pos):
    m = _RE_DIG.match(input, pos)
    return m.group(0) if m else None


def rec_word(input, pos):
    m = _RE_WORD.match(input, pos)
    return m.group(0) if m else None


def rec_upper(input, pos):
    m = _RE_UP.match(input, pos)
    return m.group(0) if m else None


_RE_DIG = re.compile(r"\d+")
_RE_WORD = re.compile(r"[a-z]+")
_RE_UP = re.compile(r"[A-Z]+")
RECOGNIZERS = {"digits": rec_digits, "word": rec_word, "upper": rec_upper}


# ----------------------------------------------------------------------------
# scenario families

# operator texts become the NAMES of inline terminals: punctuation that is
# special somewhere else (comma, colon, bar, quotes, backslash) is included on
# purpose - names end up in saved tables and in the keys of compiled error hints
OPS = ["+", "-", "*", "/", "^", "%", "<", "&", ",", ":", "|", "=", "'", "\\", "\""]
OPS_U = ["\u20ac", "\u00d7", "\u2192", "\u2218"]  # euro, times, arrow, ring
NUMS = ["1", "2", "3", "42", "7", "10"]
IDS = ["a", "b", "x", "y1", "foo", "bar_2", "q"]


def _expr_model(ops, prios, assocs, parens=True, num_re=r"\d+", order=None, layout="ws",
                dynamic=False, nums=NUMS, num_rec=False):
    alts = []
    for op in ops:
        meta = []
        if assocs.get(op):
            meta.append(assocs[op])
        if prios.get(op) is not None:
            meta.append(str(prios[op]))
        if dynamic:
            meta.append("dynamic")
        alts.append(Alt(["E", op, "E"], ", ".join(meta)))
    if parens:
        alts.append(Alt(["(", "E", ")"]))
    alts.append(Alt(["num"]))
    if order:
        alts = [alts[i] for i in order]
    terms = [Term(op, "str", op, [op], meta="dynamic" if dynamic else "",
                  inline=not dynamic) for op in ops]
    if dynamic:
        for i, t in enumerate(terms):
            t.name = f"op{i}"
        # rename refs
        name_of = {op: f"op{i}" for i, op in enumerate(ops)}
        for a in alts:
            for it in a.items:
                it.sym = name_of.get(it.sym, it.sym)
    if parens:
        terms += [Term("(", "str", "(", ["("]), Term(")", "str", ")", [")"])]
    if num_rec:
        # operands recognised by a harness recognizer (a callback that can fail;
        # it is also called where an operand is NOT expected, when every
        # recognizer of the grammar is probed for an error report)
        terms.append(Term("num", "rec", "digits", [n for n in nums if n.isdigit()]))
    else:
        terms.append(Term("num", "re", num_re, nums))
    return GModel([Rule("E", alts)], terms, layout=layout)


def fam_expr(rng):
    """Operator expressions; with priorities (deterministic LR table) or
    without (ambiguous: LR needs prefer_shifts, GLR yields forests)."""
    n = rng.randint(2, 4)
    # a quarter of the expression scenarios use non-ASCII operator texts (these
    # become symbol names, hence end up in saved tables and error messages)
    ops = rng.sample(OPS_U + OPS[:2] if rng.random() < 0.25 else OPS, n)
    with_prio = rng.random() < 0.55
    r_l = rng.random()
    layout = "comments" if r_l < 0.3 else "nested" if r_l < 0.4 else "ws"
    if layout != "ws" and "/" not in ops and rng.random() < 0.6:
        # an operator that is a prefix of the comment syntax (// and /* */): layout
        # skipping and token recognition compete at such positions
        ops[0] = "/"
    parens = rng.random() < 0.8
    if with_prio:
        prios = {op: rng.randint(1, 3) for op in ops}
        lvl_assoc = {p: rng.choice(["left", "right"]) for p in (1, 2, 3)}
        assocs = {op: lvl_assoc[prios[op]] for op in ops}
    else:
        prios, assocs = {}, {}
    base = _expr_model(ops, prios, assocs, parens, layout=layout)
    versions = [base]
    # v1: another operator
    extra = rng.choice([o for o in OPS + OPS_U if o not in ops])
    p2, a2 = dict(prios), dict(assocs)
    if with_prio:
        p2[extra] = rng.randint(1, 3)
        a2[extra] = lvl_assoc[p2[extra]]
    versions.append(_expr_model(ops + [extra], p2, a2, parens, layout=layout))
    # v2: alternatives reordered (production ids move)
    nalts = n + (1 if parens else 0) + 1
    order = list(range(nalts))
    rng.shuffle(order)
    versions.append(_expr_model(ops, prios, assocs, parens, order=order, layout=layout))
    # v3: priorities / associativity changed (same states, other actions)
    if with_prio:
        p3 = {op: 4 - prios[op] for op in ops}
        a3 = {op: ("right" if assocs[op] == "left" else "left") for op in ops}
    else:
        p3 = {op: i + 1 for i, op in enumerate(ops)}
        a3 = {op: "left" for op in ops}
    versions.append(_expr_model(ops, p3, a3, parens, layout=layout))
    # v4: terminal regex changed
    versions.append(
        _expr_model(ops, prios, assocs, parens, num_re=r"\d+(\.\d+)?", layout=layout,
                    nums=NUMS + ["1.5", "0.25"])
    )
    return dict(family="expr", models=versions, layout=layout, lex_overlap=False)


def _stmt_model(rng_choices, layout, with_else=True, kw2="print", id_re=r"[a-z_]\w*",
                swap=False, extra_stmt=False, named=True):
    def A(n, op="="):
        return (n, op) if named else None

    stmt_alts = [
        Alt(["let", Item("ID", assign=A("name")), "=", Item("Expr", assign=A("value")), ";"]),
        Alt([kw2, Item("Expr", "+", "comma", assign=A("args")), ";"]),
    ]
    if with_else:
        stmt_alts.append(Alt(["if", Item("Expr", assign=A("cond")), "then",
                              Item("Stmt", assign=A("body")),
                              Item("Else", "?", assign=A("orelse"))]))
    else:
        stmt_alts.append(Alt(["if", Item("Expr", assign=A("cond")), "then",
                              Item("Stmt", assign=A("body")), "end"]))
    if extra_stmt:
        stmt_alts.append(Alt(["return", Item("Expr", "?", assign=A("value")), ";"]))
    if swap:
        stmt_alts.reverse()
    rules = [
        Rule("Prog", [Alt([Item("Stmt", "*", assign=A("stmts"))])]),
        Rule("Stmt", stmt_alts),
    ]
    if with_else:
        rules.append(Rule("Else", [Alt(["else", Item("Stmt", assign=A("stmt"))])]))
    rules.append(
        Rule("Expr", [Alt(["Expr", "+", "Expr"], "left, 1"), Alt(["Expr", "*", "Expr"], "left, 2"),
                      Alt(["ID"]), Alt(["NUM"])])
    )
    kws = ["let", kw2, "if", "then"] + (["else"] if with_else else ["end"]) + (
        ["return"] if extra_stmt else [])
    terms = [Term(k, "str", k, [k]) for k in kws]
    terms += [Term(s, "str", s, [s]) for s in ["=", ";", "+", "*"]]
    terms += [
        Term("comma", "str", ",", [","], inline=False),
        Term("ID", "re", id_re, IDS),
        Term("NUM", "re", r"\d+", NUMS),
    ]
    return GModel(rules, terms, layout=layout, keyword=r"\w+")


def fam_stmt(rng):
    """Statement language: keywords vs identifiers (KEYWORD rule), repetition
    sugar with separators, optional, named matches (object results), dangling
    else (S/R conflict unless prefer_shifts), optional LAYOUT with comments."""
    r_l = rng.random()
    layout = "comments" if r_l < 0.4 else "nested" if r_l < 0.55 else "ws"
    named = rng.random() < 0.6
    with_else = rng.random() < 0.7
    base = _stmt_model(rng, layout, with_else, named=named)
    versions = [
        base,
        _stmt_model(rng, layout, with_else, extra_stmt=True, named=named),
        _stmt_model(rng, layout, with_else, swap=True, named=named),
        _stmt_model(rng, layout, with_else, kw2="show", named=named),
        _stmt_model(rng, layout, with_else, id_re=r"[a-z_][a-z_]*", named=named),
    ]
    return dict(family="stmt", models=versions, layout=layout, lex_overlap=False,
                named=named)


def fam_nullable(rng, unicode_names=None):
    """Nullable chains; prefer_shifts_over_empty matters.  A third of the
    scenarios use non-ASCII terminal texts (symbol names in saved tables)."""
    if unicode_names is None:
        unicode_names = rng.random() < 0.33
    U = {"a": "\u03b1", "b": "\u03b2", "y": "\u044f"} if unicode_names else {}

    def mk(variant):
        m = mk0(variant)
        if U:
            for r in m.rules:
                for a in r.alts:
                    for it in a.items:
                        it.sym = U.get(it.sym, it.sym)
            terms = [Term(U.get(t.name, t.name), "str", U.get(t.name, t.name),
                          [U.get(t.name, t.name)]) for t in m.terms.values()]
            m = GModel(m.rules, terms)
        return m

    def mk0(variant):
        rules = [
            Rule("S", [Alt(["A", "B", "C", "x"]), Alt(["A", "y"])]),
            Rule("A", [Alt(["a"]), Alt([])]),
            Rule("B", [Alt(["b", "B"]), Alt([])]),
            Rule("C", [Alt(["c"]), Alt([])]),
        ]
        if variant == 1:
            rules[0].alts.append(Alt(["A", "B", "z"]))
        if variant == 2:
            rules[1].alts.reverse()
            rules[2].alts.reverse()
        if variant == 3:
            rules[3] = Rule("C", [Alt(["c", "C"]), Alt([])])
        if variant == 4:
            rules[0] = Rule("S", [Alt(["A", "B", "C", "x"]), Alt(["A", "y"]), Alt(["S", "S"])])
        names = ["a", "b", "c", "x", "y"] + (["z"] if variant == 1 else [])
        return GModel(rules, [Term(n, "str", n, [n]) for n in names])

    return dict(family="nullable", models=[mk(i) for i in range(5)], layout="ws",
                lex_overlap=False)


def fam_lexamb(rng):
    """Lexically overlapping terminals: GLR forks, LR raises
    DisambiguationError unless priorities / prefer settle it."""
    pri = rng.choice(["", "prefer", "15"])

    def mk(variant):
        items = [Alt(["INT"]), Alt(["FLOAT"]), Alt(["ID"]), Alt(["in"])]
        if variant == 2:
            items.reverse()
        rules = [Rule("S", [Alt([Item("Item", "+")])]), Rule("Item", items)]
        fl = r"\d+(\.\d+)?" if variant != 3 else r"\d+\.\d+"
        terms = [
            Term("INT", "re", r"\d+", ["1", "23", "7"], meta=pri if variant != 1 else ""),
            Term("FLOAT", "re", fl, ["1.5", "23", "0.1"] if variant != 3 else ["1.5", "0.1"]),
            Term("ID", "re", r"[a-z]+", ["in", "x", "inn", "ab"],
                 meta="" if variant != 4 else "5"),
            Term("in", "str", "in", ["in"]),
        ]
        return GModel(rules, terms)

    return dict(family="lexamb", models=[mk(i) for i in range(5)], layout="ws",
                lex_overlap=True)


def fam_dyn(rng):
    """Operator grammar with every operator marked dynamic; conflicts are left
    to a stateful run-time precedence filter."""
    n = rng.randint(2, 3)
    ops = rng.sample(["+", "*", "-", "^"], n)
    nr = rng.random() < 0.5
    base = _expr_model(ops, {}, {}, parens=False, dynamic=True, num_rec=nr)
    ops2 = ops + [rng.choice([o for o in ["+", "*", "-", "^", "%"] if o not in ops])]
    v1 = _expr_model(ops2, {}, {}, parens=False, dynamic=True, num_rec=nr)
    order = list(range(n + 1))
    rng.shuffle(order)
    v2 = _expr_model(ops, {}, {}, parens=False, dynamic=True, order=order, num_rec=nr)
    return dict(family="dyn", models=[base, v1, v2], layout="ws", lex_overlap=False,
                dynamic=True)


def fam_rec(rng):
    """Terminals with empty bodies bound to harness recognizers (a second
    party called back in the middle of the parse)."""
    def mk(variant):
        elem_alts = [Alt(["num"]), Alt(["word"])]
        if variant == 1:
            elem_alts.append(Alt(["[", "L", "]"]))
        if variant == 2:
            elem_alts.reverse()
        rules = [
            Rule("L", [Alt(["Elem"]), Alt(["L", "comma", "Elem"])]) if variant != 3 else
            Rule("L", [Alt([Item("Elem", "+", "comma")])]),
            Rule("Elem", elem_alts),
        ]
        terms = [
            Term("num", "rec", "digits", ["1", "22", "305"]),
            Term("word", "rec", "word" if variant != 4 else "upper",
                 ["ab", "c", "xyz"] if variant != 4 else ["AB", "C"]),
            Term("comma", "str", ",", [","], inline=False),
        ]
        if variant == 1:
            terms += [Term("[", "str", "[", ["["]), Term("]", "str", "]", ["]"])]
        return GModel(rules, terms)

    return dict(family="rec", models=[mk(i) for i in range(5)], layout="ws",
                lex_overlap=False)


def fam_amb(rng):
    """Small highly ambiguous / cyclic-free grammars for forests."""
    which = rng.randrange(3)

    def mk(variant):
        if which == 0:
            rules = [Rule("S", [Alt(["S", "S"]), Alt(["a"])] +
                          ([Alt(["S", "S", "S"])] if variant == 1 else []) +
                          ([Alt(["b"])] if variant == 2 else []))]
            names = ["a"] + (["b"] if variant == 2 else [])
        elif which == 1:
            rules = [Rule("S", [Alt(["A", "S"]), Alt(["b"])]),
                     Rule("A", [Alt(["a"]), Alt(["a", "a"])] +
                          ([Alt(["a", "a", "a"])] if variant == 1 else []))]
            if variant == 2:
                rules[1].alts.reverse()
            names = ["a", "b"]
        else:
            rules = [Rule("S", [Alt(["a", "S", "a"]), Alt(["a"])] +
                          ([Alt(["S", "b"])] if variant == 1 else []) +
                          ([Alt([])] if variant == 2 else []))]
            names = ["a"] + (["b"] if variant == 1 else [])
        return GModel(rules, [Term(n, "str", n, [n]) for n in names])

    return dict(family="amb", models=[mk(i) for i in range(3)], layout="ws",
                lex_overlap=False)


def fam_random_eps(rng):
    """Random small CFG biased towards EMPTY alternatives, recursion and few
    terminals: the shapes on which the GLR driver revisits already processed
    heads when a new link appears on the same frontier."""
    return fam_random(rng, eps=True)


def fam_random(rng, eps=False):
    """Random small CFG (<=4 nonterminals, <=5 terminals, <=3 alternatives of
    length <=3).  Filtered later by a deterministic construction budget."""
    nn = rng.randint(2, 3) if eps else rng.randint(1, 4)
    nt = rng.randint(1, 2) if eps else rng.randint(1, 5)
    nts = ["S", "A", "B", "C"][:nn]
    ts = ["a", "b", "c", "d", "e"][:nt]

    def mk_rules(r):
        rules = []
        for name in nts:
            alts = []
            for _ in range(r.randint(1, 3)):
                ln = r.choice([0, 0, 1, 2, 2, 3, 3] if eps else [0, 1, 1, 2, 2, 3])
                alts.append(Alt([r.choice(nts + nts + ts if eps else nts + ts + ts)
                                 for _ in range(ln)]))
            if eps:
                # hidden recursion through nullable symbols: an alternative made of
                # nonterminals only, and (mostly) an EMPTY alternative
                if r.random() < 0.7:
                    alts.append(Alt([r.choice(nts) for _ in range(r.choice([2, 3, 3]))]))
                if r.random() < 0.7:
                    alts.append(Alt([]))
            # make sure every NT is productive: one alternative of terminals only
            if not any(all(i.sym in ts for i in a.items) for a in alts):
                alts.append(Alt([r.choice(ts)] if r.random() < 0.8 else []))
            # dedupe
            seen, uniq = set(), []
            for a in alts:
                k = tuple(i.sym for i in a.items)
                if k not in seen:
                    seen.add(k)
                    uniq.append(a)
            rules.append(Rule(name, uniq))
        return rules

    import random as _r

    seeds = [rng.getrandbits(32) for _ in range(3)]
    models = []
    for i, s in enumerate(seeds):
        rules = mk_rules(_r.Random(seeds[0]))
        if i == 1:  # one rule regenerated
            other = mk_rules(_r.Random(s))
            k = _r.Random(s).randrange(len(rules))
            rules[k] = other[k]
        if i == 2:  # alternatives reversed
            for r_ in rules:
                r_.alts.reverse()
        models.append(GModel(rules, [Term(n, "str", n, [n]) for n in ts]))
    return dict(family="random-eps" if eps else "random", models=models, layout="ws",
                lex_overlap=False)


def fam_rrprio(rng):
    """Reduce/reduce conflicts settled by production priorities: two or three
    nonterminals derive the same string and differ in priority; the start rule
    pairs each of them with several following terminals, partly shared.  No
    conflict is reported, Parser builds; which reduction wins for which
    lookahead is decided while the lookahead set of each item is walked."""
    follow = rng.sample(["p", "q", "r", "s", "t", "u", "v", "x", "y"], rng.randint(4, 8))
    nts = ["L", "H"] + (["M"] if rng.random() < 0.4 else [])
    prio = {"L": None, "H": 11, "M": rng.choice([5, 11, 12])}
    body = rng.choice([["a"], ["a", "b"]])

    def mk(variant):
        r = __import__("random").Random(rng_seed + (variant if variant == 1 else 0))
        sets = {}
        shared = r.sample(follow, r.randint(1, 2))
        for n in nts:
            extra = [f for f in follow if f not in shared and r.random() < 0.6]
            sets[n] = shared + extra
        alts = [Alt([n, f]) for n in nts for f in sets[n]]
        if variant == 2:
            alts.reverse()
        else:
            r.shuffle(alts)
        rules = [Rule("S", alts)]
        order = list(nts)
        if variant == 2:
            order.reverse()
        for n in order:
            rules.append(Rule(n, [Alt(list(body), str(prio[n]) if prio[n] else "")]))
        names = sorted(set(follow) | set(body))
        return GModel(rules, [Term(x, "str", x, [x]) for x in names])

    rng_seed = rng.getrandbits(30)
    return dict(family="rrprio", models=[mk(i) for i in range(3)], layout="ws",
                lex_overlap=False)


def fam_unprod(rng):
    """Grammars with a rule that has no recursion-terminating alternative: every
    table construction raises GrammarError ('First set empty ... infinite
    recursion').  Material for 'a construction that fails with a grammar error
    leaves the Grammar usable / gives the same result again'.  Some versions are
    productive, so histories mix failing and succeeding grammar objects."""
    which = rng.randrange(3)

    def mk(variant):
        if which == 0:
            rules = [Rule("S", [Alt(["a"]), Alt(["B"])]),
                     Rule("B", [Alt(["B", "b"])] + ([Alt(["b"])] if variant == 1 else []))]
            names = ["a", "b"]
        elif which == 1:
            rules = [Rule("S", [Alt(["Elements"])]),
                     Rule("Elements", [Alt(["Elements", "Element"])]
                          + ([Alt(["Element"])] if variant == 1 else [])),
                     Rule("Element", [Alt(["x"]), Alt(["y"])] if variant != 2 else [Alt(["x"])])]
            names = ["x", "y"] if variant != 2 else ["x"]
        else:
            rules = [Rule("S", [Alt(["A", "c"])]),
                     Rule("A", [Alt(["A", "a"]), Alt(["B"])]),
                     Rule("B", [Alt(["A", "b"])] + ([Alt(["b"])] if variant == 1 else []))]
            names = ["a", "b", "c"]
        if variant == 2 and which != 1:
            rules[0].alts.reverse()
        return GModel(rules, [Term(n, "str", n, [n]) for n in names])

    return dict(family="unprod", models=[mk(i) for i in range(3)], layout="ws",
                lex_overlap=False, no_derive=True)


MAX_TOKENS = {"amb": 7, "random": 6, "random-eps": 6, "nullable": 12}

FAMILIES = {
    "expr": fam_expr,
    "stmt": fam_stmt,
    "nullable": fam_nullable,
    "lexamb": fam_lexamb,
    "dyn": fam_dyn,
    "rec": fam_rec,
    "amb": fam_amb,
    "random": fam_random,
    "random-eps": fam_random_eps,
    "unprod": fam_unprod,
    "rrprio": fam_rrprio,
}


BUILD_BUDGET = 400_000  # step-clock ticks for all table builds of one random CFG


def child_build_budget(texts):
    """Runs in a simulated process: do all versions of a random CFG build
    (LALR and SLR, no strategies) within the deterministic step budget?"""
    from parglare import Grammar
    from parglare.closure import LR_0, LR_1
    from parglare.tables import create_table

    from .core import StepBudgetExceeded, StepClock

    clock = StepClock(BUILD_BUDGET).start()
    try:
        for t in texts:
            try:
                g = Grammar.from_string(t)
                for it in (LR_1, LR_0):
                    create_table(g, itemset_type=it)
            except Exception:
                pass
            if clock.exceeded:  # the injected exception may surface as another type
                return False
    except StepBudgetExceeded:
        return False
    finally:
        clock.stop()
    return not clock.exceeded


def make_scenario(rng, families):
    fam = rng.choice(families)
    sc = FAMILIES[fam](rng)
    if fam in ("random", "random-eps"):
        from .core import call_or_raise

        tries = 0
        while not call_or_raise(child_build_budget, [m.render() for m in sc["models"]]):
            sc = FAMILIES[fam](rng)
            tries += 1
            if tries > 20:
                sc = FAMILIES["amb"](rng)
                break
    sc.setdefault("dynamic", False)
    sc.setdefault("named", False)
    m0 = sc["models"][0]
    sc["texts"] = [m.render() for m in sc["models"]]
    sc["recognizers"] = [
        {t.name: t.text for t in m.terms.values() if t.kind == "rec"} for m in sc["models"]
    ]
    nts, terms = [], []
    for m in sc["models"]:
        for n in m.nts():
            if n not in nts:
                nts.append(n)
        for t in m.terms.values():
            if t.name not in terms:
                terms.append(t.name)
    sc["nts"], sc["terms"] = nts, terms
    sc["m0"] = m0
    return sc


def gen_input(rng, sc, version=None, p_damage=0.5, max_faults=3, kinds=None):
    """An input string for scenario sc: a laid-out sentence of some version,
    damaged with probability p_damage.  Returns (text, info)."""
    models = sc["models"]
    v = rng.randrange(len(models)) if version is None else version
    m = models[v]
    if sc.get("no_derive"):
        # some nonterminal derives no sentence: token soup instead of a derivation
        lex = m.all_lexemes()
        toks = [("<soup>", rng.choice(lex)) for _ in range(rng.randint(0, 6))]
    else:
        toks = m.sentence(rng, depth=rng.randint(1, 5))
    mt = MAX_TOKENS.get(sc["family"], 40)
    if len(toks) > mt:
        toks = toks[: rng.randint(1, mt)]
    fired = []
    if rng.random() < p_damage:
        toks, fired = damage(rng, toks, m, kinds or DAMAGE_KINDS, rng.randint(1, max_faults))
    text = layout_tokens(rng, toks, sc["layout"])
    if "trunc_char" in fired and text:
        text = text[: rng.randrange(len(text))]
    return text, {"version": v, "faults": fired, "ntok": len(toks)}


# ----------------------------------------------------------------------------
# import scenarios (C12): hand written templates with versions


def import_scenario(rng):
    """Root grammar + imported files (chain or diamond) + optional .pge."""
    shape = rng.choice(["chain", "diamond", "cycle"])
    ops_v = [("+", "*"), ("+", "*", "-"), ("*", "+")]

    def base_pg(ops, num_re=r"\d+", reorder=False):
        alts = [f"E '{op}' E {{left, {i + 1}}}" for i, op in enumerate(ops)]
        alts += ["'(' E ')'", "num"]
        if reorder:
            alts.reverse()
        return "E: " + "\n | ".join(alts) + f";\nterminals\nnum: /{num_re}/;\n"

    if shape == "chain":
        root0 = "import 'base.pg';\nProg: base.E+[semi];\nterminals\nsemi: ';';\n"
        root1 = "import 'base.pg';\nProg: Line+;\nLine: base.E semi;\nterminals\nsemi: ';';\n"
        # a root nonterminal with the plain name of an imported terminal (re-export)
        root2 = ("import 'base.pg';\nProg: num+[semi];\nnum: base.E;\nterminals\nsemi: ';';\n")
        files = lambda r, b: {"g.pg": r, "base.pg": b}  # noqa
        versions = [
            files(rng.choice([root0, root0, root2]), base_pg(ops_v[0])),
            files(root0, base_pg(ops_v[1])),
            files(root0, base_pg(ops_v[0], reorder=True)),
            files(root1, base_pg(ops_v[0])),
            files(root0, base_pg(ops_v[2])),
            files(root0, base_pg(ops_v[0], num_re=r"\d+(\.\d+)?")),
            files(root2, base_pg(ops_v[1])),
        ]
        edits = {1: ["base.pg"], 2: ["base.pg"], 3: ["g.pg"], 4: ["base.pg"], 5: ["base.pg"]}
    elif shape == "cycle":
        root = "import 'items.pg' as i;\nProg: i.Item+[semi];\nterminals\nsemi: ';';\n"
        root2 = "import 'items.pg' as i;\nProg: i.Item+[semi] semi?;\nterminals\nsemi: ';';\n"
        items = ("import 'expr.pg' as e;\nItem: 'let' e.E | 'blk' '{' Item* '}';\n")
        items2 = ("import 'expr.pg' as e;\nItem: 'let' e.E | 'ret' e.E | 'blk' '{' Item* '}';\n")

        def expr_pg(ops, reorder=False):
            alts = [f"E '{op}' E {{left, {i + 1}}}" for i, op in enumerate(ops)]
            alts += ["'[' i.Item ']'", "num"]  # recursive reference through the import cycle
            if reorder:
                alts.reverse()
            return ("import 'items.pg' as i;\nE: " + "\n | ".join(alts)
                    + ";\nterminals\nnum: /\\d+/;\n")

        files = lambda r, it, ex: {"g.pg": r, "items.pg": it, "expr.pg": ex}  # noqa
        versions = [
            files(root, items, expr_pg(ops_v[0])),
            files(root, items, expr_pg(ops_v[1])),
            files(root, items2, expr_pg(ops_v[0])),
            files(root2, items, expr_pg(ops_v[0])),
            files(root, items, expr_pg(ops_v[0], reorder=True)),
            files(root, items, expr_pg(ops_v[2])),
        ]
        edits = {}
    else:
        root = ("import 'left.pg' as l;\nimport 'right.pg' as r;\n"
                "Prog: Item+[semi];\nItem: l.L | r.R;\nterminals\nsemi: ';';\n")
        left = "import 'base.pg';\nL: 'let' base.E;\n"
        left2 = "import 'base.pg';\nL: 'let' base.E | 'set' base.E;\n"
        right = "import 'base.pg';\nR: 'ret' base.E;\n"
        right2 = "import 'base.pg';\nR: 'ret' base.E | 'ret';\n"
        files = lambda lf, rt, b: {"g.pg": root, "left.pg": lf, "right.pg": rt, "base.pg": b}  # noqa
        versions = [
            files(left, right, base_pg(ops_v[0])),
            files(left, right, base_pg(ops_v[1])),
            files(left2, right, base_pg(ops_v[0])),
            files(left, right2, base_pg(ops_v[0])),
            files(left, right, base_pg(ops_v[0], reorder=True)),
            files(left, right, base_pg(ops_v[2])),
        ]
        edits = {1: ["base.pg"], 2: ["left.pg"], 3: ["right.pg"], 4: ["base.pg"], 5: ["base.pg"]}

    exprs = ["1", "1 + 2", "1 + 2 * 3", "2 * 3 + 4", "(1 + 2) * 3", "1 - 2", "1.5 + 2",
             "1 + + 2", "(1 + 2", "1 + 2)", "1 2", "* 3", "1 +", "1 * 2 - 3 + 4"]
    probes = []
    for _ in range(10):
        n = rng.randint(1, 3)
        es = [rng.choice(exprs) for _ in range(n)]
        if shape == "chain":
            s = "; ".join(es) + (";" if rng.random() < 0.5 else "")
        else:
            s = "; ".join(rng.choice(["let ", "ret ", "set ", ""]) + e for e in es)
            if rng.random() < 0.2:
                s += "; ret"
        probes.append(s)
    if shape == "cycle":
        probes = []
        for _ in range(10):
            cexprs = ["1", "1 + 2", "1 + 2 * 3", "2 * 3 + 4", "[let 1]", "[ blk { let 2 } ] + 1",
                      "[ret 3] * 2", "1 - 2", "1 2", "1 +", "2 * [let 3 + 4] * 5", "1 * 2 - 3"]
            es = [rng.choice(cexprs) for _ in range(rng.randint(1, 3))]
            probes.append("; ".join(rng.choice(["let ", "ret ", "let ", ""]) + e for e in es)
                          + (";" if rng.random() < 0.3 else ""))
        if rng.random() < 0.5:
            probes.append("blk { let 1 let 2 * 3 }")
    if shape == "chain":
        pge = ("1 + + 2\n:::+\nAfter an operator an operand must follow.\n\n=====\n"
               "(1 + 2\n:::\nMissing closing parenthesis\n\n=====\n"
               "1 + 2)\n:::+\nUnexpected closing parenthesis\n\n=====\n"
               "1 2\n:::+\nOperator expected between numbers\n")
    else:
        pge = ("let 1 + + 2\n:::+\nAfter an operator an operand must follow.\n\n=====\n"
               "let (1 + 2\n:::\nMissing closing parenthesis\n\n=====\n"
               "ret 1 2\n:::+\nOperator expected between numbers\n\n=====\n"
               "1\n:::\nItems start with let or ret\n")
    return dict(family="imports-" + shape, versions=versions, edits=edits, probes=probes,
                pge=pge, layout="ws", lex_overlap=False, recognizers={})


def import_samename_scenario(rng):
    """Grammar split over files in which several imported files define symbols of
    the SAME NAME (different fully qualified names), same priority and same
    recognizer kind/length, all of them lookaheads of one reduction."""
    n = rng.randint(2, 3)
    mods = ["add", "sub", "mul"][:n]
    kind = rng.choice(["str", "re", "re-overlap", "str-same"])
    texts = rng.sample(["+", "-", "*", "/", "%", "^"], n)
    if kind == "str-same":
        # the very same literal defined in several files: terminals that differ in
        # nothing but their fully qualified name
        texts = [texts[0]] * n
        kind = "str"
    files = {}
    for m, t in zip(mods, texts):
        if kind == "str":
            body = quote(t)
        elif kind == "re":
            body = "/" + re.escape(t).replace("/", r"\/") + "/"
        else:
            body = "/[" + re.escape(t) + re.escape(texts[0]) + "]/"
        files[f"{m}.pg"] = f"Sign: OP;\nterminals\nOP: {body};\n"
    alts = [f"E {m}.OP E" for m in mods]
    if rng.random() < 0.5:
        alts = [a + " {left, 1}" for a in alts]
    if rng.random() < 0.5:
        alts.append("E " + ".Sign ".join(mods[:2]) + ".Sign E")
    rng.shuffle(alts)
    root = "".join(f"import '{m}.pg' as {m};\n" for m in mods)
    # two differently named terminals that match the same text (INT preferred, so LR
    # still scans deterministically): error reports there carry two lookahead names
    root += ("S: E;\nE: " + "\n | ".join(alts + ["NUM", "INT"])
             + ";\nterminals\nNUM: /\\d+/;\nINT: /\\d+/ {prefer};\n")
    files["g.pg"] = root
    inputs = []
    for _ in range(3):
        k = rng.randint(1, 4)
        toks = ["1"]
        for _ in range(k):
            toks += [rng.choice(texts), rng.choice(["2", "3", "10"])]
        inputs.append(" ".join(toks))
    # error examples in lookahead mode: the doubled operator is matched by several
    # (overlapping, same-named) terminals, so the compiled hint key holds several names
    exs = [f"1 {t} {t} 2\n:::+\nhint for doubled {i}\n" for i, t in enumerate(texts)]
    exs.append("1 2\n:::+\noperator missing\n")
    pge = "\n=====\n".join(exs)
    inputs += [f"1 {t} {t} 2" for t in texts] + ["1 2"]
    return dict(family="imports-samename", files=files, inputs=inputs, pge=pge)
