"""C16 -- tables and forests are deterministic across processes and hash seeds.

The nondeterminism is CPython's string-hash seed; the seam is PYTHONHASHSEED of
fresh interpreters started by the simulator.  See DESIGN.md section 6."""

import glob
import json
import os
import shutil
import subprocess
import sys
import time

from . import core, pool

PROP = "C16"
NITEMS = {"quick": 160, "thorough": 1000}
NSEEDS = {"quick": 8, "thorough": 16}
SHARD = 40

ORDER_PROBES = [
    "S: a b c d e f g h; terminals a:'a'; b:'b'; c:'c'; d:'d'; e:'e'; f:'f'; g:'g'; h:'h';",
    "E: E '+' E | E '-' E | E '*' E | E '/' E | '(' E ')' | n; terminals n: /\\d+/;",
    "S: A B C D; A: 'x'; B: 'y'; C: 'z'; D: 'w' | 'v' | 'u';",
]


START_BUDGET = 2_000_000


def child_start_budget(text, recs, t):
    """Simulated process: does the table for this entry point build within the
    deterministic step budget?"""
    from parglare import Grammar
    from parglare.closure import LR_0, LR_1
    from parglare.tables import create_table

    clock = core.StepClock(START_BUDGET).start()
    try:
        try:
            rec = {k: pool.RECOGNIZERS[v] for k, v in (recs or {}).items()}
            g = Grammar.from_string(text, recognizers=rec or None)
            pid = g.get_production_id(t["start"])
            kw = {"start_production": pid} if pid is not None else {}
            if t.get("ld") is not None:
                kw["lexical_disambiguation"] = t["ld"]
            create_table(g, itemset_type=LR_0 if t["tables"] == "SLR" else LR_1,
                         prefer_shifts=t["ps"], prefer_shifts_over_empty=t["pse"], **kw)
        except core.StepBudgetExceeded:
            return False
        except Exception:
            pass
    finally:
        clock.stop()
    return not clock.exceeded


def gen_items(vseed, tier, n):
    rng = core.rng_for(vseed, PROP, "items")
    items = []
    fams = ["expr", "expr", "amb", "amb", "random", "random", "random", "lexamb", "lexamb", "stmt",
            "stmt", "nullable", "dyn", "rec", "rrprio", "rrprio"]
    while len(items) < n:
        sc = pool.make_scenario(rng, fams)
        v = rng.randrange(len(sc["texts"]))
        tables = []
        for _ in range(2):
            tables.append({"tables": rng.choice(["LALR", "SLR"]), "ps": rng.random() < 0.4,
                           "pse": rng.random() < 0.4, "ld": rng.choice([None, True, False])})
        if len(sc["models"][v].rules) > 1 and rng.random() < 0.3:
            # the first table is built for ANOTHER entry point of the grammar
            tables[0] = dict(tables[0], start=rng.choice(sc["models"][v].nts()[1:]))
            # create_table does not terminate for every (grammar, entry point) - e.g.
            # S: 'a' B | A | B S 'a' | 'a'; A: 'a' | B A; B: 'a' A B | 'a'; from A, LALR,
            # grows to 8 GB.  Termination of table construction is not C16: such an
            # entry point is dropped here, once, under hash seed 0 (no PRNG draw).
            if not core.call_or_raise(child_start_budget, sc["texts"][v], sc["recognizers"][v],
                                      tables[0], timeout=600):
                del tables[0]["start"]
        elif rng.random() < 0.5:
            # same automaton options, other scanning option, on one Grammar object
            tables[1] = dict(tables[0], ld=rng.choice(
                [x for x in (None, True, False) if x != tables[0]["ld"]]))
        inputs = [pool.gen_input(rng, sc, version=v, p_damage=0.25)[0] for _ in range(3)]
        if sc["family"] in ("lexamb", "stmt", "expr", "rec"):
            # recovery at lexically ambiguous resume points: junk in front of tokens
            inputs += [pool.gen_input(rng, sc, version=v, p_damage=1.0, max_faults=2,
                                      kinds=["junk", "junk", "subst", "dup"])[0]
                       for _ in range(4)]
        items.append({"family": sc["family"], "text": sc["texts"][v], "recs": sc["recognizers"][v],
                      "tables": tables, "inputs": inputs,
                      "cyclic": sc["models"][v].is_cyclic()})
        if len(items) % 5 == 0:
            # grammars split over files: same-named symbols in different files, import graphs
            if rng.random() < 0.6:
                isc = pool.import_samename_scenario(rng)
                files, inputs = isc["files"], isc["inputs"]
            else:
                isc = pool.import_scenario(rng)
                files = isc["versions"][rng.randrange(len(isc["versions"]))]
                inputs = isc["probes"][:3]
            items.append({"family": isc["family"], "files": files, "tables": tables,
                          "inputs": inputs, "pge": isc.get("pge")})
    return items[:n]


NEPS = {"quick": 700, "thorough": 2000}


def gen_eps_items(vseed, tier):
    """Epsilon-rich random CFGs (hidden recursion through nullable symbols), GLR
    only, a dozen very short inputs each: the shapes on which the GLR driver
    revisits several already processed heads when a new link appears.  Order
    sensitivity there is rare (measured with a seeded change: ~1 grammar in 120),
    hence many cheap items."""
    def one(i):
        rng = core.rng_for(vseed, PROP, f"eps-item-{i}")
        esc = pool.make_scenario(rng, ["random-eps"])
        ev = rng.randrange(len(esc["texts"]))
        alpha = sorted(esc["models"][ev].terms)
        eins = [pool.gen_input(rng, esc, version=ev, p_damage=0.0)[0] for _ in range(3)]
        eins += [" ".join(rng.choice(alpha) for _ in range(rng.randint(1, 4))) for _ in range(9)]
        return {"family": "random-eps", "text": esc["texts"][ev], "recs": {},
                "tables": [{"tables": "LALR", "ps": False, "pse": False, "ld": None}],
                "inputs": sorted(set(eins)),
                "parsers": [{"name": "glr", "kind": "glr"}]}

    # generation includes the deterministic construction-budget filter (a forked
    # child per candidate), so it is spread over the worker pool
    res = core.run_pool(one, range(NEPS[tier]))
    items = []
    for i in range(NEPS[tier]):
        if isinstance(res[i], dict) and "family" in res[i]:
            items.append(res[i])
        else:
            raise core.HarnessError(f"eps item generation failed: {res[i]}")
    return items


def corpus_items():
    base = core.PARGLARE_SRC if os.path.isdir(os.path.join(core.PARGLARE_SRC, "tests")) else "/repo"
    files = sorted(glob.glob(os.path.join(base, "tests", "**", "*.pg"), recursive=True)
                   + glob.glob(os.path.join(base, "examples", "**", "*.pg"), recursive=True))
    return [{"family": "corpus", "file": f, "tables": [
        {"tables": "LALR", "ps": False, "pse": False, "ld": None},
        {"tables": "SLR", "ps": True, "pse": True, "ld": None}]} for f in files]


def _weight(item):
    f = item.get("file") or ""
    if f.endswith(("java16.pg", "perf/test3/g.pg")):
        return 2
    if f.endswith(("examples/c/c.pg", "examples/c/c2.pg")):
        return 1
    return 0


def run_workers(jobs, base):
    """jobs: list of (hashseed, shard index, work dict).  Returns {(hs, shard): result}."""
    procs, results = [], {}
    maxp = core.n_workers()
    pending = list(jobs)
    worker = os.path.join(os.path.dirname(os.path.abspath(__file__)), "c16_worker.py")
    deadline = time.monotonic() + max(3000, core.POOL_WALL["value"])

    def start(job):
        hs, sh, work = job
        inp = os.path.join(base, f"in-{hs}-{sh}.json")
        outp = os.path.join(base, f"out-{hs}-{sh}.json")
        work = dict(work, tmpdir=os.path.join(base, f"tmp-{hs}-{sh}"))
        with open(inp, "w") as f:
            json.dump(work, f)
        env = dict(os.environ)
        env["PYTHONHASHSEED"] = str(hs)
        p = subprocess.Popen([sys.executable, worker, inp, outp], env=env,
                             stdout=subprocess.DEVNULL, stderr=subprocess.PIPE)
        return (p, job, outp)

    while pending or procs:
        while pending and len(procs) < maxp:
            procs.append(start(pending.pop(0)))
        still = []
        for p, job, outp in procs:
            rc = p.poll()
            if rc is None:
                still.append((p, job, outp))
                continue
            if rc != 0 or not os.path.exists(outp):
                err = p.stderr.read().decode(errors="replace")[-2000:]
                raise core.HarnessError(f"C16 worker hashseed={job[0]} shard={job[1]} rc={rc}: {err}")
            with open(outp) as f:
                results[(job[0], job[1])] = json.load(f)
        procs = still
        if time.monotonic() > deadline:
            for p, _, _ in procs:
                p.kill()
            raise core.HarnessTimeout("C16 workers")
        if procs:
            time.sleep(0.02)
    return results


def diff_item(a, b):
    """First differing field between two item results."""
    if a == b:
        return None
    for k in sorted(set(a) | set(b)):
        if a.get(k) != b.get(k):
            x, y = a.get(k), b.get(k)
            if isinstance(x, dict) and isinstance(y, dict):
                for kk in sorted(set(x) | set(y)):
                    if x.get(kk) != y.get(kk):
                        return f"{k}.{kk}"
            if isinstance(x, list) and isinstance(y, list):
                for i, (p, q) in enumerate(zip(x, y)):
                    if p != q:
                        return f"{k}[{i}]"
            return k
    return "?"


def check(tier, vseed, args):
    n = args.runs or NITEMS[tier]
    rng = core.rng_for(vseed, PROP, "seeds")
    hashseeds = [0] + sorted(rng.sample(range(1, 2**31), NSEEDS[tier] - 1))
    corpus = corpus_items()
    heavy = [it for it in corpus if _weight(it) > 0]
    light = [it for it in corpus if _weight(it) == 0]
    if tier == "quick":
        heavy = [it for it in heavy if _weight(it) == 1]
    items = gen_items(vseed, tier, n) + light
    eps = gen_eps_items(vseed, tier) if not args.runs else []
    shards = ([[it] for it in heavy] + [items[i:i + SHARD] for i in range(0, len(items), SHARD)]
              + [eps[i:i + 4 * SHARD] for i in range(0, len(eps), 4 * SHARD)])
    items = heavy + items + eps
    base = os.path.join(core.SHM, f"pgsim-c16-{os.getpid()}")
    shutil.rmtree(base, ignore_errors=True)
    os.makedirs(base)
    violations = []
    try:
        nh = len(heavy)
        jobs = [(hs, si, {"items": sh, "shuffle_seed": vseed * 1000 + si,
                          "order_probes": ORDER_PROBES if si == nh else []})
                for si, sh in enumerate(shards) for hi, hs in enumerate(hashseeds)
                if not (_weight(sh[0]) == 2 and hi >= 8)]
        results = run_workers(jobs, base)
        ref = {si: results[(0, si)] for si in range(len(shards))}
        orders = {results[(hs, nh)]["orders"] for hs in hashseeds}
        diffs = []
        distinct = set()
        built = 0
        fam = core.Stats()
        for si, sh in enumerate(shards):
            for ii, item in enumerate(sh):
                r0 = ref[si]["first"][ii]
                if "grammar" not in r0:
                    built += 1
                    fam.inc(item["family"])
                    distinct.add(core.digest(r0))
                for hs in hashseeds:
                    r = results.get((hs, si))
                    if r is None:
                        continue
                    for which in ("first", "second"):
                        for tk, tv in sorted(r[which][ii].items()):
                            if isinstance(tv, dict):
                                for fld in ("same_after_later_builds", "same_when_built_again",
                                            "same_as_on_fresh_grammar",
                                            "loaded_same_conflicts", "same"):
                                    if tv.get(fld) is False:
                                        diffs.append({"shard": si, "item": ii, "hashseed": hs,
                                                      "construction": which,
                                                      "field": f"{tk}.{fld}"})
                    for which in ("first", "second"):
                        d = diff_item(r0, r[which][ii])
                        if d is not None:
                            diffs.append({"shard": si, "item": ii, "hashseed": hs,
                                          "construction": which, "field": d})
        seen = set()
        for d in diffs:
            key = (d["shard"], d["item"])
            if key in seen or len(violations) >= 3:
                continue
            seen.add(key)
            item = shards[d["shard"]][d["item"]]
            violations.append(_report(item, d, vseed, base))
        conflict_items = sum(
            1 for si, sh in enumerate(shards) for ii, _ in enumerate(sh)
            for k, v in ref[si]["first"][ii].items()
            if isinstance(v, dict) and v.get("nconf") and v["nconf"] != [0, 0])
        samples = []
        for it in items[:2]:
            samples.append({"family": it["family"],
                            "grammar": it.get("text") or it.get("file") or it.get("files"),
                            "tables": it["tables"], "inputs": it.get("inputs")})
        evidence = {
            "property_id": PROP,
            "level": "exploration",
            "coverage": {
                "evaluations": len(items) * len(hashseeds) * 2,
                "runs": len(items) * len(hashseeds) * 2,
                "distinct_nontrivial": len(distinct),
                "rule": ("items = (grammar, 2 table configurations, 3 inputs) from the seeded pool "
                         "(biased to conflict-rich / ambiguous grammars) plus every *.pg of the "
                         "repository that loads stand-alone; each item is built twice (second time "
                         "after all others, shuffled) in a fresh interpreter per PYTHONHASHSEED value; "
                         "compared with hash seed 0: sha256 of the sort_keys JSON table, bytes written "
                         "by save_table, structured conflict lists in report order, and for each input "
                         "GLR len/ambiguities/to_str of forest[0..50) in index order and the LR tree; "
                         "distinct_nontrivial = items whose grammar loaded, distinct by result digest"),
                "samples": samples,
                "seeds": {"VERIF_SEED": vseed, "PYTHONHASHSEED_values": hashseeds},
                "items": len(items),
                "items_built": built,
                "items_by_family": fam.as_dict(),
                "table_configs_with_conflicts": conflict_items,
                "interpreters_started": len(jobs),
                "distinct_symbol_set_iteration_orders": len(orders),
                "differences": len(diffs),
                "batch_digest": core.digest([[si, ref[si]["first"]] for si in sorted(ref)]),
                "real_vs_stub": {
                    "real": ["fresh CPython interpreters, parglare grammar loading, create_table, "
                             "save_table, Parser, GLRParser, forests"],
                    "simulated": ["the string-hash seed (PYTHONHASHSEED)"],
                    "bypassed": [],
                },
            },
            "assumptions": ["PYTHONHASHSEED is the only interpreter-level nondeterminism that reaches "
                            "parglare (no id()-ordered containers)"],
        }
        return {"violations": violations, "known": [], "evidence": evidence,
                "harness_problems": []}
    finally:
        shutil.rmtree(base, ignore_errors=True)


def _report(item, d, vseed, base):
    from .main import confirm_replay

    rp = {"property": PROP, "seed": vseed, "item": item, "hashseeds": [0, d["hashseed"]],
          "construction": d["construction"], "field": d["field"]}
    # minimise inputs / table configs while the difference persists
    rp = minimise(rp, base)
    path = core.replay_path(PROP, vseed, f"i{d['shard']}_{d['item']}")
    core.write_json(path, rp)
    ok = confirm_replay(path)
    return {"replay": path, "confirmed": ok,
            "summary": f"{rp['field']} differs between PYTHONHASHSEED={rp['hashseeds']} "
                       f"({rp['construction']} construction) replay_confirmed={ok}"}


def _differs(item, hashseeds, base, full=False):
    # (a difference inside ONE process is reported with hashseeds [0, 0]: one interpreter)
    hashseeds = list(dict.fromkeys(hashseeds))
    jobs = [(hs, 0, {"items": [item], "shuffle_seed": 0, "full": full}) for hs in hashseeds]
    res = run_workers(jobs, base)
    a = res[(hashseeds[0], 0)]
    out = None
    for hs in hashseeds:
        r = res[(hs, 0)]
        for which in ("first", "second"):
            for tk, tv in sorted(r[which][0].items()):
                if isinstance(tv, dict):
                    for fld in ("same_after_later_builds", "same_when_built_again",
                                "same_as_on_fresh_grammar", "loaded_same_conflicts", "same"):
                        if tv.get(fld) is False:
                            return (f"{tk}.{fld}", hs, which, a["first"][0], r[which][0])
            d = diff_item(a["first"][0], r[which][0])
            if d is not None:
                out = (d, hs, which, a["first"][0], r[which][0])
                return out
    return out


def minimise(rp, base):
    item = rp["item"]
    deadline = time.monotonic() + 60
    if item.get("inputs"):
        for x in list(item["inputs"]):
            if time.monotonic() > deadline:
                break
            cand = dict(item, inputs=[i for i in item["inputs"] if i != x])
            if _differs(cand, rp["hashseeds"], base):
                item = cand
    if len(item["tables"]) > 1:
        for t in list(item["tables"]):
            if time.monotonic() > deadline or len(item["tables"]) == 1:
                break
            cand = dict(item, tables=[i for i in item["tables"] if i is not t])
            if _differs(cand, rp["hashseeds"], base):
                item = cand
    d = _differs(item, rp["hashseeds"], base)
    if d:
        rp = dict(rp, item=item, field=d[0], construction=d[2])
    return rp


def replay(rp):
    base = os.path.join(core.SHM, f"pgsim-c16-replay-{os.getpid()}")
    os.makedirs(base, exist_ok=True)
    try:
        d = _differs(rp["item"], rp["hashseeds"], base, full=True)
    finally:
        shutil.rmtree(base, ignore_errors=True)
    if not d:
        return False, {"difference": None}
    return True, {"field": d[0], "hashseed": d[1], "construction": d[2],
                  "seed0": _brief(d[3], d[0]), "other": _brief(d[4], d[0])}


def _brief(res, field):
    k = field.split(".")[0].split("[")[0]
    s = json.dumps(res.get(k), sort_keys=True)
    return s[:3000]
