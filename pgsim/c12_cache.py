"""C12 -- the table cache is transparent whatever its age, origin or completeness.

Simulated disk (tmpfs directory, simulated mtime clock), simulated processes
(fork children; a crash is os._exit inside the write seam), histories of
constructions / compilations / edits / touches / deletions with crash and I/O
faults injected at the write seam; oracle = cold build of the same sources in
a fresh directory in a pristine process.  See DESIGN.md section 4.
"""

import json
import os
import shutil
import time

from . import pool
from .core import (
    SHM,
    HarnessError,
    Stats,
    canon,
    ddmin,
    digest,
    fork_call,
    sha_bytes,
    StepBudgetExceeded,
    StepClock,
)
from .outcome import build_kwargs, exc_outcome, parse_outcome, table_digest
from .simfs import SimDir, WriteSeam

PROP = "C12"
FAULT_KINDS = ["crash", "enospc", "eio", "eperm"]

# ----------------------------------------------------------------------------
# code that runs inside simulated processes


def _recs(recs):
    return {k: pool.RECOGNIZERS[v] for k, v in recs.items()} if recs else None


STEP_BUDGET = 3_000_000


def child_construct(root, cfg, recs, probes, fault, now_ns=None):
    from parglare import GLRParser, Grammar, Parser

    seam = WriteSeam(root, fault, now_ns)
    seam.install()
    clock = StepClock(STEP_BUDGET).start()
    roots = (root,)
    out = {"op": "construct"}

    def fin():
        out["writes"] = [[e["path"], e["n"], e["chunks"], e["fault"]] for e in seam.log]
        out["fired"] = seam.fired
        out["ticks"] = clock.stop()
        if clock.exceeded and not out.get("budget"):
            out["build"] = {"exc": "StepBudgetExceeded"}
            out.pop("probes", None)
            out.pop("table", None)
            out["budget"] = True
        return out

    try:
        try:
            g = Grammar.from_file(os.path.join(root, "g.pg"), recognizers=_recs(recs))
        except Exception as e:
            out["build"] = exc_outcome(e, roots)
            out["build"]["stage"] = "grammar"
            out["build"]["oserror"] = isinstance(e, OSError)
            return fin()
        cls = Parser if cfg["kind"] == "lr" else GLRParser
        try:
            p = cls(g, **build_kwargs(cfg["opts"]))
        except Exception as e:
            out["build"] = exc_outcome(e, roots)
            out["build"]["oserror"] = isinstance(e, OSError)
            return fin()
        out["build"] = "ok"
        out["table"] = table_digest(p.table)
        out["probes"] = [parse_outcome(p, x, roots) for x in probes]
    except StepBudgetExceeded:
        pass
    if clock.exceeded:  # whatever exception type surfaced
        out["build"] = {"exc": "StepBudgetExceeded"}
        out.pop("probes", None)
        out.pop("table", None)
        out["budget"] = True
    return fin()


def child_compile(root, ps, pse, fault, now_ns=None):
    from parglare.cli import compile_get_grammar_table

    seam = WriteSeam(root, fault, now_ns)
    seam.install()
    out = {"op": "compile"}

    def fin():
        out["writes"] = [[e["path"], e["n"], e["chunks"], e["fault"]] for e in seam.log]
        out["fired"] = seam.fired
        return out

    try:
        g, table = compile_get_grammar_table(os.path.join(root, "g.pg"), False, False, ps, pse)
    except SystemExit as e:
        out["build"] = {"exc": "SystemExit", "str": str(e.code), "oserror": False}
        return fin()
    except Exception as e:
        out["build"] = exc_outcome(e, (root,))
        out["build"]["oserror"] = isinstance(e, OSError)
        return fin()
    out["build"] = "ok"
    out["table"] = table_digest(table)
    out["conflicts"] = [len(table.sr_conflicts), len(table.rr_conflicts)]
    return fin()


def child_roundtrip(text, recs, topts, tmpdir):
    """Round-trip clause: save/load gives the same table; saving again gives
    byte-identical output."""
    from parglare import Grammar
    from parglare.closure import LR_0, LR_1
    from parglare.tables import create_table
    from parglare.tables.persist import load_table, save_table, table_to_serializable

    try:
        if isinstance(text, dict):  # {"file": path} (repository corpus) or {"files": {...}}
            if "file" in text:
                g = Grammar.from_file(text["file"], _no_check_recognizers=True)
            else:
                for name, t in text["files"].items():
                    with open(os.path.join(tmpdir, name), "w") as f:
                        f.write(t)
                g = Grammar.from_file(os.path.join(tmpdir, "g.pg"))
        else:
            g = Grammar.from_string(text, recognizers=_recs(recs))
    except Exception as e:
        return {"skip": exc_outcome(e)}
    kw = dict(
        itemset_type=LR_0 if topts.get("tables") == "SLR" else LR_1,
        prefer_shifts=bool(topts.get("prefer_shifts")),
        prefer_shifts_over_empty=bool(topts.get("prefer_shifts_over_empty")),
    )
    if topts.get("lexical_disambiguation") is not None:
        kw["lexical_disambiguation"] = topts["lexical_disambiguation"]
    try:
        t1 = create_table(g, **kw)
    except Exception as e:
        return {"skip": exc_outcome(e)}
    f1 = os.path.join(tmpdir, "t1.pgc")
    f2 = os.path.join(tmpdir, "t2.pgc")
    save_table(f1, t1)
    t2 = load_table(f1, g)
    save_table(f2, t2)
    with open(f1, "rb") as f:
        b1 = f.read()
    with open(f2, "rb") as f:
        b2 = f.read()

    def conf(t):
        return [
            [[c.state.state_id, c.term.fqn, [p.prod_id for p in c.productions]] for c in cs]
            for cs in (t.sr_conflicts, t.rr_conflicts)
        ]

    def dyn(t):
        return [sorted(x.fqn for x in s.dynamic) for s in t.states]

    def flags(t):
        return [list(s.finish_flags) for s in t.states]

    s1 = json.loads(json.dumps(table_to_serializable(t1)))
    s2 = json.loads(json.dumps(table_to_serializable(t2)))
    bad = []
    if s1 != s2:
        bad.append("serializable")
    if conf(t1) != conf(t2):
        bad.append("conflicts")
    if dyn(t1) != dyn(t2):
        bad.append("dynamic")
    if flags(t1) != flags(t2):
        bad.append("finish_flags")
    if b1 != b2:
        bad.append("bytes")
    return {
        "bad": bad,
        "states": len(t1.states),
        "conflicts": [len(t1.sr_conflicts), len(t1.rr_conflicts)],
        "size": len(b1),
        "sha": sha_bytes(b1),
    }


# ----------------------------------------------------------------------------
# driver side


def exec_child(workdir, hashseed, args):
    """Run one operation in a fresh interpreter with the given PYTHONHASHSEED.
    Returns (status, payload) like core.fork_call."""
    import subprocess
    import sys

    af = os.path.join(workdir, "child-args.json")
    with open(af, "w") as f:
        json.dump(args, f)
    env = dict(os.environ)
    env["PYTHONHASHSEED"] = str(hashseed)
    script = os.path.join(os.path.dirname(os.path.abspath(__file__)), "c12_child.py")
    try:
        r = subprocess.run([sys.executable, script, af], env=env, capture_output=True,
                           timeout=300)
    except subprocess.TimeoutExpired:
        return "timeout", None
    if r.returncode == 137:
        return "crash", None
    if r.returncode == 0 and r.stdout:
        return "ok", json.loads(r.stdout)["r"]
    return "harness", (r.stderr or b"").decode(errors="replace")[-2000:]


def cfg_key(cfg):
    return canon(cfg)


def compile_cfg(ps, pse):
    return {"kind": "compile", "opts": {"ps": bool(ps), "pse": bool(pse)}}


class Cold:
    """Cold-build oracle, memoised per (sources, config, probes)."""

    def __init__(self, base):
        self.base = base
        self.memo = {}
        self.n = 0
        self.queries = 0

    def get(self, sources, cfg, recs, probes):
        key = digest([sources, cfg, recs, probes])
        self.queries += 1
        if key in self.memo:
            return self.memo[key]
        d = os.path.join(self.base, f"cold{self.n}")
        self.n += 1
        os.makedirs(d)
        try:
            for name, text in sources.items():
                with open(os.path.join(d, name), "w") as f:
                    f.write(text)
            if cfg["kind"] == "compile":
                st, out = fork_call(child_compile, d, cfg["opts"]["ps"], cfg["opts"]["pse"], None)
            else:
                st, out = fork_call(child_construct, d, cfg, recs, probes, None)
            if st != "ok":
                raise HarnessError(f"cold build failed: {st}: {out}")
            for suffix in ("pgc", "pgec"):
                p = os.path.join(d, "g." + suffix)
                if os.path.exists(p):
                    with open(p, "rb") as f:
                        b = f.read()
                    out[suffix + "_sha"] = sha_bytes(b)
                    out[suffix + "_len"] = len(b)
                else:
                    out[suffix + "_sha"] = None
                    out[suffix + "_len"] = None
        finally:
            shutil.rmtree(d, ignore_errors=True)
        self.memo[key] = out
        return out


def comparable(out):
    if out is None:
        return None
    c = {"build": out.get("build")}
    if isinstance(c["build"], dict):
        c["build"] = {k: v for k, v in c["build"].items() if k != "oserror"}
    for k in ("probes", "conflicts", "table"):
        if k in out:
            c[k] = out[k]
    return c


def first_diff(actual, cold):
    a, c = comparable(actual), comparable(cold)
    if a == c:
        return None
    if a["build"] != c["build"]:
        return "build"
    if a.get("probes") != c.get("probes"):
        for i, (x, y) in enumerate(zip(a.get("probes") or [], c.get("probes") or [])):
            if x != y:
                return f"probe{i}"
        return "probes"
    if a.get("conflicts") != c.get("conflicts"):
        return "conflicts"
    return "table"


def execute(spec, ops, workdir, cold, stats=None, log=None):
    """Execute an explicit history.  Returns (records, divergences).

    spec: {'versions': [{name: text}], 'pge': text|None,
           'recognizers': [{term: recname}], 'probes': [str]}
    A divergence is {'i': op index, 'field': ..., 'attributed': KF id|None, ...}.
    """
    stats = stats if stats is not None else Stats()
    log = log if log is not None else []
    sim = SimDir(os.path.join(workdir, "sim"))
    records, divergences = [], []
    version = 0
    try:
        for name, text in spec["versions"][0].items():
            sim.write(name, text)
        if spec.get("pge") is not None:
            sim.write("g.pge", spec["pge"])
        ghost = {"g.pgc": None, "g.pgec": None}  # writer info per cache file

        def sources():
            return {
                n: sim.read_bytes(n).decode() for n in sim.names() if n.endswith((".pg", ".pge"))
            }

        def fresh(name, also_pge):
            t = sim.mtime(name)
            if t is None:
                return None
            for n in sim.names():
                if n.endswith(".pg") or (also_pge and n.endswith(".pge")):
                    if sim.mtime(n) > t:
                        return False
            return True

        for i, op in enumerate(ops):
            sim.tick(op.get("dt", 1))
            kind = op["op"]
            rec = {"i": i, "op": kind, "t": sim.clock}
            if kind in ("construct", "compile"):
                src = sources()
                recs = spec["recognizers"][version] if spec.get("recognizers") else {}
                if kind == "construct":
                    cfg = op["cfg"]
                    probes = spec["probes"]
                else:
                    cfg = compile_cfg(op["ps"], op["pse"])
                    probes = []
                ck = cfg_key(cfg)
                want = cold.get(src, cfg, recs, probes)
                # abstract situation before the op (coverage + attribution)
                pre = {}
                for cf, also in (("g.pgc", False), ("g.pgec", True)):
                    sha = sim.sha(cf)
                    suffix = cf.split(".")[1]
                    pre[cf] = {
                        "sha": sha,
                        "fresh": fresh(cf, also),
                        "same": sha is not None and sha == want.get(suffix + "_sha"),
                        "writer": ghost[cf],
                    }
                sit = []
                for cf in ("g.pgc", "g.pgec"):
                    pz = pre[cf]
                    if pz["sha"] is None:
                        s = "absent"
                    else:
                        s = ("fresh" if pz["fresh"] else "stale") + (
                            "-same" if pz["same"] else "-other"
                        )
                        if not pz["same"] and not _complete(sim.read_bytes(cf)):
                            s = ("fresh" if pz["fresh"] else "stale") + "-torn"
                    sit.append(s)
                rec["sit"] = sit
                fault = op.get("fault")
                if fault is not None:
                    fault = dict(fault)
                    if "offset" not in fault:
                        ln = want.get(fault["target"].lstrip(".") + "_len")
                        if fault["kind"] == "eperm":
                            fault["offset"] = 0
                        elif ln is None:
                            fault = None
                        else:
                            fault["offset"] = min(ln, int(round(fault["frac"] * ln)))
                    if fault is not None:
                        op["fault"] = fault  # resolved offset becomes part of the history
                if op.get("hashseed") is not None:
                    # this simulated process is a fresh interpreter with its own
                    # string-hash seed (a cache may come from such a process)
                    st, out = exec_child(workdir, op["hashseed"], {
                        "op": kind, "root": sim.path, "cfg": cfg, "recs": recs, "probes": probes,
                        "fault": fault, "now_ns": sim.clock_ns, "ps": op.get("ps"),
                        "pse": op.get("pse")})
                    stats.inc("fresh_interpreter_processes")
                elif kind == "construct":
                    st, out = fork_call(child_construct, sim.path, cfg, recs, probes, fault,
                                        sim.clock_ns)
                else:
                    st, out = fork_call(child_compile, sim.path, op["ps"], op["pse"], fault,
                                        sim.clock_ns)
                if st == "timeout":
                    raise HarnessError("simulated process timed out")
                if st in ("harness", "died"):
                    raise HarnessError(f"simulated process failed: {st}: {out}")
                changed = sim.sync()
                rec["status"] = st
                rec["changed"] = changed
                fired = None
                if st == "crash":
                    fired = "crash"
                elif out.get("fired"):
                    fired = out["fired"]
                rec["fired"] = fired
                if fired:
                    stats.inc(f"fault_fired.{fired}.{fault['target']}")
                elif fault is not None:
                    stats.inc("fault_not_fired")
                if st == "ok":
                    for w in out["writes"]:
                        stats.inc("writes_seen")
                    seen = {w[0] for w in out["writes"]}
                    for c in changed:
                        if c not in seen:
                            stats.inc("writes_unseen")
                stats.inc(f"sit.{kind}.{sit[0]}.{sit[1]}.{fired or 'nofault'}")
                # D1 attribution predicates (known finding KF-C12-1)
                d1 = False
                pz = pre["g.pgc"]
                if pz["sha"] is not None and pz["fresh"] and pz["writer"] and not pz["same"]:
                    w = pz["writer"]
                    # "other options" means other EFFECTIVE table options: a writer
                    # whose effective options equal the reader's (e.g. pglr compile
                    # --prefer-shifts --prefer-shifts-over-empty vs a default Parser)
                    # must have written the reader's table, so a difference there is
                    # not explained by the known finding
                    if table_options(json.loads(w["cfg"])) != table_options(cfg):
                        wc = cold.get(src, json.loads(w["cfg"]), recs,
                                      probes if json.loads(w["cfg"])["kind"] != "compile" else [])
                        if wc.get("pgc_sha") == pz["sha"]:
                            d1 = True
                d1_pgc = d1
                pz = pre["g.pgec"]
                if pz["sha"] is not None and pz["fresh"] and pz["writer"] and not pz["same"]:
                    w = pz["writer"]
                    if w.get("tainted"):
                        d1 = True
                    elif json.loads(w["cfg"])["kind"] != "compile" and (
                            hint_options(json.loads(w["cfg"])) != hint_options(cfg)):
                        wc = cold.get(src, json.loads(w["cfg"]), recs, probes)
                        if wc.get("pgec_sha") == pz["sha"]:
                            d1 = True
                # ghost update
                for c in changed:
                    if c in ghost:
                        ghost[c] = {"cfg": ck, "tainted": bool(c == "g.pgec" and d1_pgc)}
                for c in ghost:
                    if sim.sha(c) is None:
                        ghost[c] = None
                # oracle
                if st == "crash":
                    rec["out"] = "crash"
                else:
                    rec["out"] = digest(comparable(out))
                    fd = first_diff(out, want)
                    if want.get("budget") or out.get("budget"):
                        # step budget hit: only a livelock relative to a cheap
                        # cold build counts, everything else is "too heavy"
                        if out.get("budget") and not want.get("budget") and (
                                want.get("ticks", STEP_BUDGET) * 20 < STEP_BUDGET):
                            fd = "livelock"
                        else:
                            fd = None
                            stats.inc("skipped_step_budget")
                    io_excused = (
                        fd == "build"
                        and fired in ("enospc", "eio", "eperm")
                        and isinstance(out.get("build"), dict)
                        and out["build"].get("oserror")
                    )
                    if io_excused:
                        stats.inc("io_error_surfaced")
                        rec["io_error"] = out["build"]["exc"]
                    elif fd is not None:
                        dv = {
                            "i": i,
                            "op": kind,
                            "field": fd,
                            "sit": sit,
                            "cfg": cfg,
                            "attributed": "KF-C12-1" if d1 else None,
                            "actual": _pick(out, fd),
                            "cold": _pick(want, fd),
                        }
                        divergences.append(dv)
                        rec["div"] = [fd, dv["attributed"]]
                        stats.inc("div.attributed" if d1 else "div.unattributed")
                    else:
                        stats.inc("ops_equal_to_cold")
            elif kind == "edit":
                version = op["version"]
                wrote = []
                for name, text in spec["versions"][version].items():
                    cur = sim.read_bytes(name)
                    if cur is None or cur.decode() != text:
                        sim.write(name, text)
                        wrote.append(name)
                rec["wrote"] = wrote
                stats.inc("op.edit" + ("" if wrote else ".noop"))
            elif kind == "edit_pge":
                sim.write("g.pge", op["text"])
                stats.inc("op.edit_pge")
            elif kind == "touch":
                if sim.mtime(op["file"]) is not None:
                    sim.touch(op["file"])
                stats.inc("op.touch")
            elif kind == "future":
                if sim.mtime(op["file"]) is not None:
                    sim.touch(op["file"], sim.clock + 1_000_000)
                stats.inc("op.future")
            elif kind == "delete":
                for n in op["files"]:
                    sim.delete(n)
                    if n in ghost:
                        ghost[n] = None
                stats.inc("op.delete")
            else:
                raise HarnessError(f"unknown op {kind}")
            records.append(rec)
            log.append(rec)
        return records, divergences, int(sim.clock - 1_000_000_000)
    finally:
        sim.destroy()


def _complete(b):
    try:
        json.loads(b.decode())
        return True
    except Exception:
        return False


def _pick(out, field):
    if out is None:
        return None
    if field == "build":
        return out.get("build")
    if field.startswith("probe") and field != "probes":
        i = int(field[5:])
        pr = out.get("probes") or []
        return pr[i] if i < len(pr) else out.get("build")
    return out.get(field)


# ----------------------------------------------------------------------------
# generation


def gen_cfg(rng, lr_only=False):
    kind = "lr" if lr_only else rng.choice(["lr", "glr"])
    opts = {}
    for k in ("prefer_shifts", "prefer_shifts_over_empty", "lexical_disambiguation"):
        v = rng.choice([None, None, True, False])
        if v is not None:
            opts[k] = v
    t = rng.choice([None, None, "LALR", "SLR"])
    if t:
        opts["tables"] = t
    if kind == "lr" and rng.random() < 0.4:
        opts["build_tree"] = True
    if rng.random() < 0.06:
        opts["debug"] = True  # tracing output (to /dev/null): must not change what is loaded
    return {"kind": kind, "opts": opts}


def effective(cfg):
    """Effective table-affecting options of a config (for compile matching)."""
    o = cfg["opts"]
    lr = cfg["kind"] == "lr"
    ps = o.get("prefer_shifts")
    pse = o.get("prefer_shifts_over_empty")
    ld = o.get("lexical_disambiguation")
    return {
        "ps": (True if lr else False) if ps is None else ps,
        "pse": (True if lr else False) if pse is None else pse,
        "ld": (True if lr else False) if ld is None else ld,
        "tables": o.get("tables") or "LALR",
    }


def table_options(cfg):
    """What decides the content of the table a configuration computes."""
    if cfg["kind"] == "compile":
        return {"ps": bool(cfg["opts"]["ps"]), "pse": bool(cfg["opts"]["pse"]), "ld": True,
                "tables": "LALR"}
    return effective(cfg)


def hint_options(cfg):
    """What decides the content of compiled hints: the table plus the driver."""
    return [table_options(cfg), cfg["kind"]]


def gen_pge(rng, sc, n=3):
    """Error examples with hints.  Returns (pge text, example inputs): a few
    randomly damaged sentences, plus - for up to three literal terminals of the
    grammar - a sentence in which that terminal is doubled, in lookahead mode, so
    that the NAME of the offending token becomes part of a compiled hint key."""
    exs, inputs = [], []
    m = sc["models"][0]

    def add(text, la):
        if not text.strip() or "\n=====" in text or "\n:::" in text:
            return
        exs.append(f"{text}\n{la}\nhint number {len(exs)}\n")
        inputs.append(text)

    for _ in range(n):
        text, _info = pool.gen_input(rng, sc, version=0, p_damage=1.0, max_faults=1,
                                     kinds=["drop", "dup", "junk", "trunc_tok", "subst"])
        add(text, rng.choice([":::", ":::+"]))
    lits = [t.name for t in m.terms.values() if t.kind == "str"]
    rng.shuffle(lits)
    for name in lits[:3]:
        for _try in range(6):
            toks = m.sentence(rng, depth=rng.randint(1, 3))[:12]
            idx = [i for i, (tn, _) in enumerate(toks) if tn == name]
            if idx:
                i = rng.choice(idx)
                toks = toks[: i + 1] + [toks[i]] + toks[i + 1:]
                add(pool.layout_tokens(rng, toks, sc["layout"], fancy=0.0), ":::+")
                break
    return ("\n=====\n".join(exs) if exs else None), inputs


def gen_dt(rng):
    """Simulated seconds between two events: often sub-second (mtimes that
    differ only below one second are still 'older')."""
    r = rng.random()
    if r < 0.35:
        return rng.randint(1, 999) / 1000.0
    if r < 0.5:
        return rng.randint(1000, 2999) / 1000.0
    return float(rng.randint(3, 100))


def gen_run(rng, tier):
    """Draw scenario + history.  Returns (spec, ops, meta)."""
    use_imports = rng.random() < 0.35
    if use_imports:
        sc = pool.import_scenario(rng)
        versions = sc["versions"]
        probes = list(sc["probes"])
        pge = sc["pge"] if rng.random() < 0.8 else None
        if pge:
            probes += [b.split("\n:::")[0] for b in pge.split("\n=====\n")]
        recognizers = None
        fam = sc["family"]
    else:
        sc = pool.make_scenario(
            rng, ["expr", "expr", "stmt", "stmt", "nullable", "lexamb", "rec", "amb", "random", "unprod"]
        )
        versions = [{"g.pg": t} for t in sc["texts"]]
        # recognizers are Python callables given in code, not files: no cache can
        # know that they changed, and the property does not list that situation;
        # so one recognizer binding is used for all versions of the grammar text
        recognizers = [sc["recognizers"][0]] * len(versions)
        probes = []
        for v in range(len(versions)):
            probes.append(pool.gen_input(rng, sc, version=v, p_damage=0.0)[0])
        while len(probes) < 10:
            probes.append(pool.gen_input(rng, sc, p_damage=0.6)[0])
        pge = None
        if rng.random() < 0.5:
            pge, ex_inputs = gen_pge(rng, sc)
            # every compiled hint is looked up by at least one probe
            probes += ex_inputs
        fam = sc["family"]
    spec = {"family": fam, "versions": versions, "pge": pge, "recognizers": recognizers,
            "probes": probes}
    files = sorted(versions[0])
    single = rng.random() < 0.5
    faults_on = rng.random() < 0.6
    fault_kinds = [k for k in FAULT_KINDS if rng.random() < 0.6] or ["crash"]
    if single:
        cfgs = [gen_cfg(rng)]
    else:
        cfgs = [gen_cfg(rng) for _ in range(rng.randint(2, 3))]
    # one history in twelve mixes in simulated processes that are fresh
    # interpreters with another string-hash seed (0.3 s each)
    cross_seed = rng.random() < 0.08
    maxlen = 8 if tier == "quick" else 16
    n = rng.randint(2, maxlen)
    enabled = {k for k in ("edit", "touch", "future", "delete", "compile", "edit_pge")
               if rng.random() < 0.7}
    ops = []

    def construct():
        op = {"op": "construct", "cfg": rng.choice(cfgs), "dt": gen_dt(rng)}
        if faults_on and rng.random() < 0.35:
            op["fault"] = gen_fault(rng, fault_kinds, pge is not None)
        if cross_seed and rng.random() < 0.5:
            op["hashseed"] = rng.choice([1, 2, 3, 5, 7, 11])
        return op

    for _ in range(n - 1):
        r = rng.random()
        dt = gen_dt(rng)
        if r < 0.45:
            ops.append(construct())
        elif r < 0.60 and "edit" in enabled:
            ops.append({"op": "edit", "version": rng.randrange(len(versions)), "dt": dt})
        elif r < 0.70 and "touch" in enabled:
            ops.append({"op": "touch", "dt": dt,
                        "file": rng.choice(files + (["g.pge"] if pge else []))})
        elif r < 0.74 and "future" in enabled:
            ops.append({"op": "future", "file": rng.choice(files), "dt": dt})
        elif r < 0.82 and "delete" in enabled:
            choices = [["g.pgc"], ["g.pgec"], ["g.pgc", "g.pgec"]]
            if pge:
                choices.append(["g.pge"])  # the hint source disappears, its cache stays
            ops.append({"op": "delete", "dt": dt, "files": rng.choice(choices)})
        elif r < 0.92 and "compile" in enabled:
            if single:
                e = effective(cfgs[0])
                if e["ld"] and e["tables"] == "LALR":
                    op = {"op": "compile", "ps": e["ps"], "pse": e["pse"], "dt": dt}
                else:
                    op = construct()
            else:
                op = {"op": "compile", "ps": rng.random() < 0.5, "pse": rng.random() < 0.5,
                      "dt": dt}
            if op["op"] == "compile" and faults_on and rng.random() < 0.3:
                op["fault"] = gen_fault(rng, fault_kinds, False)
            ops.append(op)
        elif "edit_pge" in enabled and pge and rng.random() < 0.25:
            # back to the original examples (also re-creates a deleted .pge), or empty
            ops.append({"op": "edit_pge", "dt": dt, "text": rng.choice([pge, pge, ""])})
        elif "edit_pge" in enabled and pge:
            ops.append({"op": "edit_pge", "dt": dt,
                        "text": pge + f"\n=====\n{rng.choice(probes)} @@\n:::\nextra hint {rng.randint(0, 9)}\n"})
        else:
            ops.append(construct())
    # scripted fragments that random drawing reaches too rarely
    if rng.random() < 0.2:
        c0 = dict(construct())
        c0.pop("fault", None)
        frag = rng.choice(["future-build-edit", "build-edit-touchcache", "future-import"])
        f = rng.choice(files)
        v = rng.randrange(len(versions))
        if frag == "future-build-edit":
            # a future-dated grammar file, a build, then an ordinary edit
            pat = [{"op": "future", "file": f, "dt": gen_dt(rng)}, c0,
                   {"op": "edit", "version": v, "dt": gen_dt(rng)}]
        elif frag == "future-import":
            pat = [{"op": "future", "file": files[-1], "dt": gen_dt(rng)}, c0,
                   {"op": "touch", "file": files[0], "dt": gen_dt(rng)},
                   {"op": "edit", "version": v, "dt": gen_dt(rng)}]
        else:
            pat = [c0, {"op": "edit", "version": v, "dt": gen_dt(rng)},
                   {"op": "delete", "files": ["g.pgec"], "dt": gen_dt(rng)}]
        at = rng.randint(0, len(ops))
        ops[at:at] = pat
    last = construct()
    last.pop("fault", None)
    ops.append(last)
    meta = {"single": single, "faults_on": faults_on, "imports": use_imports, "family": fam,
            "cross_seed": cross_seed}
    return spec, ops, meta


def gen_fault(rng, kinds, has_pge):
    kind = rng.choice(kinds)
    target = ".pgec" if (has_pge and rng.random() < 0.3) else ".pgc"
    r = rng.random()
    frac = 0.0 if r < 0.1 else 1.0 if r < 0.2 else rng.random()
    return {"kind": kind, "target": target, "frac": frac}


# ----------------------------------------------------------------------------
# one seeded run


class Ctx:
    """Per-worker context: scratch dir + cold oracle memo."""

    def __init__(self):
        self.base = os.path.join(SHM, f"pgsim-c12-{os.getpid()}")
        shutil.rmtree(self.base, ignore_errors=True)
        os.makedirs(self.base)
        self.cold = Cold(self.base)
        self.n = 0

    def workdir(self):
        self.n += 1
        d = os.path.join(self.base, f"run{self.n}")
        os.makedirs(d)
        return d

    def close(self):
        shutil.rmtree(self.base, ignore_errors=True)


_ctx = None


def ctx():
    global _ctx
    if _ctx is None or _ctx.base != os.path.join(SHM, f"pgsim-c12-{os.getpid()}"):
        _ctx = Ctx()
    return _ctx


def run_history(spec, ops, stats=None, log=None):
    c = ctx()
    wd = c.workdir()
    try:
        return execute(spec, ops, wd, c.cold, stats, log)
    finally:
        shutil.rmtree(wd, ignore_errors=True)
        if len(c.cold.memo) > 4000:
            c.cold.memo.clear()


def failing(spec, ops):
    """Unattributed divergences of a history (for minimisation / replay)."""
    ops = json.loads(json.dumps(ops))
    _, divs, _ = run_history(spec, ops)
    return [d for d in divs if not d["attributed"]]


def sig(d):
    f = d["field"]
    return [d["op"], "probe" if f.startswith("probe") else f]


def minimise(spec, ops, budget_s):
    """ddmin over the op list, then argument shrinking, while the same class of
    unattributed divergence persists."""
    first = failing(spec, ops)
    if not first:
        return None
    want = sig(first[0])
    deadline = time.monotonic() + budget_s

    def test(cand):
        if not cand or cand[-1]["op"] not in ("construct", "compile"):
            return False
        ds = failing(spec, cand)
        return any(sig(d) == want for d in ds)

    ops = json.loads(json.dumps(ops))
    # keep ops up to and including the first diverging one
    ops = ops[: first[0]["i"] + 1]
    if not test(ops):
        return {"ops": ops, "spec": spec, "divergence": first[0], "minimised": False}
    ops = ddmin(ops, test, deadline)
    # shrink arguments
    for op in ops:
        if time.monotonic() > deadline:
            break
        if op.get("fault") and op["fault"].get("offset", 0) > 0 and op["fault"]["kind"] != "eperm":
            for k in (0, 1, op["fault"]["offset"] // 2):
                old = op["fault"]["offset"]
                if k >= old:
                    continue
                op["fault"]["offset"] = k
                if test(ops):
                    break
                op["fault"]["offset"] = old
        if op["op"] == "construct" and op["cfg"]["opts"]:
            for k in list(op["cfg"]["opts"]):
                old = dict(op["cfg"]["opts"])
                new = dict(old)
                del new[k]
                op["cfg"] = {"kind": op["cfg"]["kind"], "opts": new}
                if not test(ops):
                    op["cfg"] = {"kind": op["cfg"]["kind"], "opts": old}
    # shrink probes
    spec = dict(spec)
    ds = failing(spec, ops)
    d0 = [d for d in ds if sig(d) == want][0]
    if d0["field"].startswith("probe") and d0["field"] != "probes":
        k = int(d0["field"][5:])
        s2 = dict(spec)
        s2["probes"] = [spec["probes"][k]]
        if any(sig(d) == want for d in failing(s2, ops)):
            spec = s2
    elif d0["field"] == "build":
        s2 = dict(spec)
        s2["probes"] = spec["probes"][:1]
        if any(sig(d) == want for d in failing(s2, ops)):
            spec = s2
    ds = [d for d in failing(spec, ops) if sig(d) == want]
    return {"ops": ops, "spec": spec, "divergence": ds[0] if ds else d0, "minimised": True}


def one_run(vseed, idx, tier):
    from .core import rng_for

    rng = rng_for(vseed, PROP, idx)
    spec, ops, meta = gen_run(rng, tier)
    stats = Stats()
    log = []
    records, divs, simtime = run_history(spec, ops, stats, log)
    res = {
        "meta": meta,
        "nops": len(ops),
        "digest": digest(log),
        "stats": stats.as_dict(),
        "simtime": simtime,
        "opseq": digest([[r["op"], r.get("sit"), r.get("fired")] for r in records]),
        "violation": None,
        "kf": sorted({d["attributed"] for d in divs if d["attributed"]}),
    }
    bad = [d for d in divs if not d["attributed"]]
    if bad:
        res["violation"] = {"spec": spec, "ops": ops, "divergence": bad[0]}
    if idx % 97 == 0:
        res["sample"] = {"ops": [_brief(o) for o in ops],
                         "records": [{k: r.get(k) for k in ("op", "sit", "fired", "status", "div")}
                                     for r in records], "family": meta["family"]}
    return res


def _brief(o):
    b = {k: v for k, v in o.items() if k not in ("text",)}
    return b


# ----------------------------------------------------------------------------
# exhaustive crash-offset sweep


def sweep_scenarios(tier):
    import random

    out = []
    rng = random.Random(12)
    sc = pool.import_scenario(rng)
    while not sc["family"].endswith("chain"):
        sc = pool.import_scenario(rng)
    out.append(("imports-chain", {"versions": sc["versions"][:1], "pge": sc["pge"],
                                  "recognizers": None, "probes": sc["probes"][:6]}))
    fams = ["nullable-u"] if tier == "quick" else [
        "nullable-u", "nullable", "expr", "stmt", "lexamb", "rec", "amb", "dyn", "random"]
    for fam in fams:
        r = random.Random(100 + len(out))
        if fam == "nullable-u":
            # non-ASCII terminal texts: byte offsets inside multi-byte characters
            # become reachable if a table is ever written un-escaped
            pool.FAMILIES["nullable-u"] = lambda rr: pool.fam_nullable(rr, unicode_names=True)
        s = pool.make_scenario(r, [fam])
        s["family"] = fam
        probes = [pool.gen_input(r, s, version=0, p_damage=0.3)[0] for _ in range(5)]
        out.append((fam, {"versions": [{"g.pg": s["texts"][0]}], "pge": gen_pge(r, s)[0],
                          "recognizers": s["recognizers"][:1], "probes": probes}))
    return out


def sweep_jobs(tier):
    """(scenario name, spec, cfg, target, offset) for every character offset of
    every cache write of a cold construct."""
    jobs = []
    c = ctx()
    cfgs = [{"kind": "lr", "opts": {}}, {"kind": "glr", "opts": {}}]
    for name, spec in sweep_scenarios(tier):
        for cfg in cfgs:
            want = c.cold.get({**spec["versions"][0], **({"g.pge": spec["pge"]} if spec["pge"] else {})},
                              cfg, (spec["recognizers"] or [{}])[0], spec["probes"])
            for target in (".pgc", ".pgec"):
                ln = want.get(target.lstrip(".") + "_len")
                if ln is None:
                    continue
                for k in range(ln + 1):
                    jobs.append((name, spec, cfg, target, k))
        if tier == "thorough" and name == "imports-chain":
            # the other writer of the same file: `pglr compile` interrupted at every
            # byte, followed by a Parser whose options match the compiled table
            ccfg = compile_cfg(True, True)
            want = c.cold.get({**spec["versions"][0],
                               **({"g.pge": spec["pge"]} if spec["pge"] else {})},
                              ccfg, (spec["recognizers"] or [{}])[0], [])
            for k in range((want.get("pgc_len") or -1) + 1):
                jobs.append((name + "+compile", spec, {"kind": "compile"}, ".pgc", k))
    return jobs


def sweep_one(job, kind="crash"):
    name, spec, cfg, target, k = job
    fault = {"kind": kind, "target": target, "offset": k}
    if cfg["kind"] == "compile":
        ops = [
            {"op": "compile", "ps": True, "pse": True, "dt": 5, "fault": fault},
            {"op": "construct", "cfg": {"kind": "lr", "opts": {}}, "dt": 5},
        ]
    else:
        ops = [
            {"op": "construct", "cfg": cfg, "dt": 5, "fault": fault},
            {"op": "construct", "cfg": cfg, "dt": 5},
        ]
    stats = Stats()
    records, divs, _ = run_history(spec, ops, stats)
    bad = [d for d in divs if not d["attributed"]]
    return {"fired": records[0].get("fired"), "bad": bad[:1], "ops": ops if bad else None,
            "stats": stats.as_dict()}
