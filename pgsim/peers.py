"""Second parties of a parse, owned by the simulator: instrumented recognizers,
token-recognition hook, recording semantic actions, dynamic filters and
recovery strategies.  Every callback passes through SEAM.hit(name), which
counts invocations and raises InjectedFault at the armed (seam, k).

Runs inside simulated processes only."""

import random


class InjectedFault(Exception):
    """A failure raised by user code in the middle of a parse.  Deliberately a
    plain Exception and not a TypeError (parser.py retries recognizers on
    TypeError)."""


class Seam:
    def __init__(self):
        self.reset()

    def reset(self, armed=None):
        self.counts = {}
        self.armed = armed  # (seam, k) or None
        self.fired = False

    def hit(self, name):
        n = self.counts.get(name, 0) + 1
        self.counts[name] = n
        a = self.armed
        if a is not None and a[0] == name and a[1] == n:
            self.fired = True
            exc = FAULT_EXCEPTIONS[a[2] if len(a) > 2 and a[2] else "InjectedFault"]
            raise exc(f"injected at {name}#{n}")


# what a failing user callback may raise; TypeError matters because parglare
# itself catches TypeError around recognizer calls (calling-convention probe)
FAULT_EXCEPTIONS = {
    "InjectedFault": InjectedFault,
    "TypeError": TypeError,
    "ValueError": ValueError,
    "KeyError": KeyError,
    "AttributeError": AttributeError,
    "IndexError": IndexError,
}
FAULT_EXC_NAMES = ["InjectedFault", "InjectedFault", "TypeError", "TypeError", "ValueError",
                   "KeyError", "AttributeError", "IndexError"]

SEAM = Seam()
SEAMS = ["recognizer", "ctr", "term_action", "reduce_action", "filter", "recovery"]


# -- recognizers --------------------------------------------------------------


def wrap_recognizers(recs):
    from .pool import RECOGNIZERS

    out = {}
    for term, name in (recs or {}).items():
        fn = RECOGNIZERS[name]

        def rec(input, pos, _fn=fn):
            SEAM.hit("recognizer")
            return _fn(input, pos)

        out[term] = rec
    return out or None


def custom_token_recognition(head, get_tokens):
    SEAM.hit("ctr")
    return get_tokens()


# -- recording actions ---------------------------------------------------------


def _is_repetition(sym):
    """The helper nonterminals parglare creates for x+ (action_name collect /
    collect_sep) and x* (grammar_action set directly, no action_name)."""
    if not hasattr(sym, "productions"):
        return False
    an = getattr(sym, "action_name", None)
    if an in ("collect", "collect_sep"):
        return True
    return an is None and getattr(sym, "grammar_action", None) is not None


def recording_actions(nts, terms, tag="n"):
    """Actions whose return value encodes which action ran, for which
    alternative, with which sub-results and named matches.  tag marks the
    table the action came from (a failing construction uses another table)."""
    acts = {}
    for n in nts:

        def nt_action(context, nodes, _n=n, **kw):
            SEAM.hit("reduce_action")
            # user code owns what the built-in actions hand it: the lists that the
            # built-in collect actions make for x* / x+ sub-rules are modified in place,
            # as actions commonly do.  Only those: any other list may be an object of
            # the forest itself (GLR's error reporting shifts tokens whose value is a
            # list, and default actions pass a token's value object up unchanged).
            try:
                rhs = [s for s in list.__iter__(context.production.rhs) if s.name != "EMPTY"]
            except Exception:
                rhs = []
            for i, x in enumerate(nodes):
                if (isinstance(x, list) and not (x and isinstance(x[0], str) and x[0] != "~")
                        and i < len(rhs) and _is_repetition(rhs[i])):
                    x.append("~")
            r = [tag, _n, context.production.prod_symbol_id, list(nodes)]
            if kw:
                r.append({k: kw[k] for k in sorted(kw)})
            # ... and keeps per-parse state in context.extra (a dict that parse()
            # creates afresh unless the caller passes one)
            ex = getattr(context, "extra", None)
            if isinstance(ex, dict):
                ex["reductions"] = ex.get("reductions", 0) + 1
                r.append({"extra": {str(k): ex[k] for k in sorted(ex)}})
            return r

        acts[n] = nt_action
    for t in terms:

        def t_action(context, value, *rest, _t=t):
            SEAM.hit("term_action")
            return ["t" if tag == "n" else "t-" + tag, _t, value]

        acts[t] = t_action
    return acts


# -- dynamic filters -------------------------------------------------------------


def make_filter(kind):
    """'accept': accepts everything.  'prec': stateful run-time precedence: the
    earlier an operator first appears in the input, the lower its priority;
    the state is reset only by the all-None initial call."""
    if kind in (None, "none"):
        return None
    from parglare import REDUCE, SHIFT

    state = {"ops": None}

    def accept(context, from_state, to_state, action, production, subresults):
        SEAM.hit("filter")
        if action is None:
            state["ops"] = []
            return None
        return True

    def prec(context, from_state, to_state, action, production, subresults):
        SEAM.hit("filter")
        if action is None:
            state["ops"] = []
            return None
        ops = state["ops"]
        if ops is None:  # never initialised: behave as accept-all
            return True
        operation = context.token.symbol if action is SHIFT else context.token_ahead.symbol
        actions = from_state.actions[operation]
        if operation not in ops and operation.name != "STOP":
            ops.append(operation)
        if action is SHIFT:
            shifts = [a for a in actions if a.action is SHIFT]
            if not shifts:
                return False
            reductions = [a for a in actions if a.action is REDUCE]
            if not reductions:
                return True
            red_op = reductions[0].prod.rhs[1]
            if red_op not in ops:
                return True
            return ops.index(operation) > ops.index(red_op)
        elif action is REDUCE:
            red_op = production.rhs[1]
            if red_op not in ops:
                return True
            return (operation not in ops) or (ops.index(operation) <= ops.index(red_op))
        return True

    return accept if kind == "accept" else prec


# -- recovery peers ---------------------------------------------------------------


class RecoveryPeer:
    """Simulated error_recovery strategy.  Decisions are drawn from its own
    PRNG (seeded per parse by the history), not from the input.  Keeps the
    contract of a sane strategy: never moves backwards, injects only terminals
    the state expects, at most max_inject injections per parse."""

    def __init__(self, mode, max_inject=4):
        self.mode = mode
        self.max_inject = max_inject
        self.begin(0)

    def begin(self, seed):
        self.rng = random.Random(seed)
        self.injected = 0
        self.log = []

    def __call__(self, head, error, default):
        SEAM.hit("recovery")
        from parglare.parser import Token

        modes = {
            "skip": ["default", "skip", "skip"],
            "pureskip": ["pureskip", "pureskip", "default"],
            "inject": ["default", "inject", "inject", "skip"],
            "mixed": ["default", "skip", "inject", "giveup", "pureskip"],
            "giveup": ["giveup"],
        }[self.mode]
        d = self.rng.choice(modes)
        n = self.rng.randint(1, 5)
        pick = self.rng.random()
        pick2 = (pick * 7919.0) % 1.0  # derived, so that recorded peer histories keep replaying
        if d == "inject":
            cands = sorted(
                (s for s in head.state.actions if s.name not in ("STOP", "EMPTY")),
                key=lambda s: s.fqn,
            )
            if not cands or self.injected >= self.max_inject:
                d = "default"
            else:
                sym = cands[int(pick * len(cands)) % len(cands)]
                self.injected += 1
                # like the repository's own tests: the injected token may carry the text
                # that "should" have been there (value), but it occupies no input (length 0)
                value = ""
                if pick2 < 0.6:
                    value = getattr(sym.recognizer, "value", "") or ""
                head.token_ahead = Token(sym, value, head.position, length=0)
                self.log.append(["inject", head.position, sym.name])
                return True
        if d == "giveup":
            self.log.append(["giveup", head.position])
            return False
        if d == "pureskip":
            # the documented minimal strategy: move the position, report success
            # (cf. tests/func/parsing/error_recovery: context.position += 1; return True)
            if head.position >= len(head.input_str):
                self.log.append(["giveup", head.position])
                return False
            head.position = min(len(head.input_str), head.position + n)
            self.log.append(["pureskip", n, head.position])
            return True
        if d == "skip":
            # half of the time exactly the repository's own pattern (head.position += N;
            # return default_error_recovery(head)): near the end of the input the
            # position handed to the default strategy lies BEYOND the end
            if pick2 < 0.5:
                head.position += n
            else:
                head.position = min(len(head.input_str), head.position + n)
            r = default(head)
            self.log.append(["skip", n, head.position, bool(r)])
            return r
        r = default(head)
        self.log.append(["default", head.position, bool(r)])
        return r


def make_recovery(mode):
    if mode in (None, "off"):
        return False
    if mode == "default":
        return True
    return RecoveryPeer(mode)
