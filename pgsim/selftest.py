"""Self-tests of the machinery.

determinism: the same (VERIF_SEED, run indices) give identical per-run event-log
  digests with 1 / 5 / 16 workers and under other PYTHONHASHSEED values for the
  harness process (fresh interpreters).
sensitivity: every patch in /verif/mutants (index.json) is applied to a scratch
  copy of parglare under /dev/shm and the named check must report a VIOLATION
  (expect=violation) or stay silent (expect=silent: property-preserving
  counter-mutants).
"""

import json
import os
import shutil
import subprocess
import sys
import time

from . import core


def _run_check(prop, runs, env_extra, extra_args=()):
    scratch = os.path.join(core.SHM, f"pgsim-selftest-{os.getpid()}-{time.monotonic_ns()}")
    os.makedirs(scratch)
    env = dict(os.environ)
    env.update(env_extra)
    env["PGSIM_EVIDENCE_DIR"] = scratch
    env["PGSIM_REPLAY_DIR"] = os.path.join(scratch, "replays")
    env.pop("PYTHONHASHSEED", None)
    cmd = [sys.executable, os.path.join(core.VERIF_DIR, "check"), prop, "--runs", str(runs),
           *extra_args]
    r = subprocess.run(cmd, capture_output=True, text=True, env=env, timeout=3000)
    ev = None
    p = os.path.join(scratch, f"{prop}.json")
    if os.path.exists(p):
        with open(p) as f:
            ev = json.load(f)
    shutil.rmtree(scratch, ignore_errors=True)
    return r, ev


def determinism(args):
    props = [p.strip().upper() for p in args.props.split(",") if p.strip()]
    bad = 0
    for prop in props:
        variants = [
            {"PGSIM_WORKERS": "16", "PGSIM_HASHSEED": "0"},
            {"PGSIM_WORKERS": "16", "PGSIM_HASHSEED": "0"},
            {"PGSIM_WORKERS": "1", "PGSIM_HASHSEED": "0"},
            {"PGSIM_WORKERS": "5", "PGSIM_HASHSEED": "1"},
            {"PGSIM_WORKERS": "16", "PGSIM_HASHSEED": "2"},
            {"PGSIM_WORKERS": "7", "PGSIM_HASHSEED": "3"},
        ]
        extra = ["--no-sweep"] if prop == "C12" else []
        digests = []
        for v in variants:
            r, ev = _run_check(prop, args.runs, v, extra)
            if ev is None:
                print(f"determinism {prop} {v}: no evidence, exit={r.returncode}\n{r.stdout[-2000:]}")
                bad += 1
                digests.append(None)
                continue
            digests.append(ev["coverage"]["batch_digest"])
            print(f"determinism {prop} {v}: exit={r.returncode} digest={digests[-1]} "
                  f"wall={ev['wall_s']}s")
        if len(set(digests)) != 1:
            print(f"DETERMINISM-FAIL {prop}: {digests}")
            bad += 1
        else:
            print(f"determinism {prop}: OK ({args.runs} runs x {len(variants)} configurations)")
    return 1 if bad else 0


def sensitivity(args):
    with open(os.path.join(core.VERIF_DIR, "mutants", "index.json")) as f:
        index = json.load(f)
    base = os.path.join(core.SHM, f"pgsim-mut-{os.getpid()}")
    shutil.rmtree(base, ignore_errors=True)
    bad = 0
    results = []
    for m in index:
        if args.only and args.only not in m["name"]:
            continue
        d = os.path.join(base, m["name"])
        os.makedirs(d)
        try:
            shutil.copytree(os.path.join("/repo", "parglare"), os.path.join(d, "parglare"),
                            ignore=shutil.ignore_patterns("__pycache__"))
            patch = os.path.join(core.VERIF_DIR, "mutants", m["name"] + ".patch")
            r = subprocess.run(["patch", "-p1", "-s", "-d", d, "-i", patch],
                               capture_output=True, text=True)
            if r.returncode != 0:
                print(f"sensitivity {m['name']}: PATCH DOES NOT APPLY\n{r.stdout}{r.stderr}")
                bad += 1
                continue
            t0 = time.monotonic()
            extra = list(m.get("args", []))
            r, ev = _run_check(m["property"], m.get("runs", 2000), {"PARGLARE_SRC": d}, extra)
            dt = time.monotonic() - t0
            got = {0: "silent", 1: "violation"}.get(r.returncode, f"exit{r.returncode}")
            ok = got == m["expect"]
            results.append({"name": m["name"], "property": m["property"], "expect": m["expect"],
                            "got": got, "ok": ok, "wall_s": round(dt, 1)})
            print(f"sensitivity {m['name']:40s} {m['property']} expect={m['expect']:9s} got={got:9s} "
                  f"{'OK' if ok else 'MISS'} {dt:.1f}s")
            if not ok:
                bad += 1
                print(r.stdout[-1500:])
        finally:
            shutil.rmtree(d, ignore_errors=True)
    shutil.rmtree(base, ignore_errors=True)
    core.write_json(os.path.join(core.VERIF_DIR, "mutants", "last_results.json"), results)
    return 1 if bad else 0


def seeded(args):
    """Every change under /verif/seeded (written by independent sub-agents) must
    be reported by the QUICK tier of the check of its property."""
    import glob

    base = os.path.join(core.SHM, f"pgsim-seeded-{os.getpid()}")
    shutil.rmtree(base, ignore_errors=True)
    bad = 0
    results = []
    for mp in sorted(glob.glob(os.path.join(core.VERIF_DIR, "seeded", "*", "meta.json"))):
        with open(mp) as f:
            m = json.load(f)
        if args.only and args.only not in m["id"]:
            continue
        d = os.path.join(base, m["id"])
        os.makedirs(d)
        try:
            shutil.copytree(os.path.join("/repo", "parglare"), os.path.join(d, "parglare"),
                            ignore=shutil.ignore_patterns("__pycache__"))
            patch = os.path.join(os.path.dirname(mp), "patch.diff")
            r = subprocess.run(["patch", "-p1", "-s", "-d", d, "-i", patch],
                               capture_output=True, text=True)
            if r.returncode != 0:
                print(f"seeded {m['id']}: PATCH DOES NOT APPLY\n{r.stdout}{r.stderr}")
                bad += 1
                continue
            for prop in m["caught_by"]:
                t0 = time.monotonic()
                scratch = os.path.join(base, "out")
                env = dict(os.environ)
                env.update({"PARGLARE_SRC": d, "PGSIM_EVIDENCE_DIR": scratch,
                            "PGSIM_REPLAY_DIR": os.path.join(scratch, "replays")})
                env.pop("PYTHONHASHSEED", None)
                r = subprocess.run([sys.executable, os.path.join(core.VERIF_DIR, "check"), prop,
                                    "--tier", "quick"], capture_output=True, text=True, env=env,
                                   timeout=3000)
                dt = time.monotonic() - t0
                ok = r.returncode == 1 and "VIOLATION property=" in r.stdout
                results.append({"id": m["id"], "check": prop, "exit": r.returncode, "ok": ok,
                                "wall_s": round(dt, 1)})
                print(f"seeded {m['id']:8s} {prop} quick: exit={r.returncode} "
                      f"{'CAUGHT' if ok else 'MISSED'} {dt:.1f}s")
                if not ok:
                    bad += 1
                    print(r.stdout[-800:])
        finally:
            shutil.rmtree(d, ignore_errors=True)
    shutil.rmtree(base, ignore_errors=True)
    core.write_json(os.path.join(core.VERIF_DIR, "seeded", "last_results.json"), results)
    return 1 if bad else 0


def benign(args):
    """Every behaviour-preserving change under /verif/benign must leave the QUICK
    tier of all four checks silent (exit 0)."""
    import glob

    base = os.path.join(core.SHM, f"pgsim-benign-{os.getpid()}")
    shutil.rmtree(base, ignore_errors=True)
    bad = 0
    results = []
    for mp in sorted(glob.glob(os.path.join(core.VERIF_DIR, "benign", "*", "patch.diff"))):
        name = os.path.basename(os.path.dirname(mp))
        if args.only and args.only not in name:
            continue
        d = os.path.join(base, name)
        os.makedirs(d)
        try:
            shutil.copytree(os.path.join("/repo", "parglare"), os.path.join(d, "parglare"),
                            ignore=shutil.ignore_patterns("__pycache__"))
            r = subprocess.run(["patch", "-p1", "-s", "-d", d, "-i", mp],
                               capture_output=True, text=True)
            if r.returncode != 0:
                print(f"benign {name}: PATCH DOES NOT APPLY\n{r.stdout}{r.stderr}")
                bad += 1
                continue
            for prop in [p.strip() for p in args.props.split(",")]:
                t0 = time.monotonic()
                scratch = os.path.join(base, "out")
                env = dict(os.environ)
                env.update({"PARGLARE_SRC": d, "PGSIM_EVIDENCE_DIR": scratch,
                            "PGSIM_REPLAY_DIR": os.path.join(scratch, "replays")})
                env.pop("PYTHONHASHSEED", None)
                r = subprocess.run([sys.executable, os.path.join(core.VERIF_DIR, "check"), prop,
                                    "--tier", "quick"], capture_output=True, text=True, env=env,
                                   timeout=3000)
                dt = time.monotonic() - t0
                ok = r.returncode == 0 and "VIOLATION" not in r.stdout
                results.append({"id": name, "check": prop, "exit": r.returncode, "ok": ok,
                                "wall_s": round(dt, 1)})
                print(f"benign {name:8s} {prop} quick: exit={r.returncode} "
                      f"{'SILENT' if ok else 'ALARM'} {dt:.1f}s")
                if not ok:
                    bad += 1
                    print(r.stdout[-800:])
        finally:
            shutil.rmtree(d, ignore_errors=True)
    shutil.rmtree(base, ignore_errors=True)
    core.write_json(os.path.join(core.VERIF_DIR, "benign", "last_results.json"), results)
    return 1 if bad else 0


def harness(args):
    """Unit-level checks of the simulator itself (no parglare property involved)."""
    import builtins

    from . import simfs

    base = os.path.join(core.SHM, f"pgsim-harness-{os.getpid()}")
    shutil.rmtree(base, ignore_errors=True)
    os.makedirs(base)
    fails = []

    def expect(cond, what):
        print(("ok   " if cond else "FAIL ") + what)
        if not cond:
            fails.append(what)

    try:
        # 1. write seam: every byte offset of a multi-byte text is a crash point
        text = "a\u20acb\u00d7" * 3  # 1+3+1+2 bytes per group
        data = text.encode("utf-8")

        def child(k):
            seam = simfs.WriteSeam(base, {"kind": "crash", "target": ".pgc", "offset": k})
            seam.install()
            with open(os.path.join(base, "t.pgc"), "w", encoding="utf-8") as f:
                for ch in text:
                    f.write(ch)
            return "finished"

        good = True
        for k in range(len(data) + 1):
            st, _ = core.fork_call(child, k)
            with builtins.open(os.path.join(base, "t.pgc"), "rb") as f:
                got = f.read()
            if st != "crash" or got != data[:k]:
                good = False
                print("   offset", k, st, got, data[:k])
        expect(good, f"crash after k bytes leaves exactly the k-byte prefix (k=0..{len(data)})")

        # 2. ENOSPC: raises OSError, prefix stays, later writes fail too
        def child2():
            seam = simfs.WriteSeam(base, {"kind": "enospc", "target": ".pgc", "offset": 4})
            seam.install()
            try:
                with open(os.path.join(base, "u.pgc"), "w") as f:
                    f.write("0123456789")
            except OSError as e:
                return ["oserror", e.errno]
            return ["no error"]

        st, r = core.fork_call(child2)
        with builtins.open(os.path.join(base, "u.pgc"), "rb") as f:
            got = f.read()
        expect(st == "ok" and r[0] == "oserror" and got == b"0123", "ENOSPC after 4 bytes")

        # 3. simulated clock: stamp at close, explicit utime kept, plain write re-stamped
        sim = simfs.SimDir(os.path.join(base, "sim"))
        sim.write("g.pg", "x")
        sim.tick(0.25)

        def child3():
            seam = simfs.WriteSeam(sim.path, None, sim.clock_ns)
            seam.install()
            with open(os.path.join(sim.path, "a.pgc"), "w") as f:
                f.write("[]")
            inside = os.path.getmtime(os.path.join(sim.path, "a.pgc"))
            with builtins.open(os.path.join(sim.path, "b.pgc"), "w") as f:  # bypasses the seam
                f.write("[]")
            with builtins.open(os.path.join(sim.path, "c.pgc"), "w") as f:
                f.write("[]")
            os.utime(os.path.join(sim.path, "c.pgc"), (sim.clock + 500, sim.clock + 500))
            return inside

        st, inside = core.fork_call(child3)
        changed = sim.sync()
        expect(abs(inside - sim.clock) < 1e-6, "a file closed through the seam shows simulated time at once")
        expect(abs(sim.mtime("b.pgc") - sim.clock) < 1e-6, "a file written past the seam is re-stamped by sync")
        expect(abs(sim.mtime("c.pgc") - (sim.clock + 500)) < 1e-6, "an mtime set by the code under test (os.utime) is kept")
        expect(sorted(changed) == ["a.pgc", "b.pgc", "c.pgc"], "sync reports the changed files")
        expect(sim.mtime("g.pg") < sim.mtime("a.pgc"), "sub-second ordering g.pg < a.pgc")

        # 4. step clock: an exception masked by C code still ends the run
        core.import_parglare()

        def child4():
            from parglare import Grammar
            from parglare.tables import create_table

            g = Grammar.from_string("S: 'b' 'b' | 'b' B; A: S S 'a' | 'b'; "
                                    "B: A S | 'a' | 'a' B 'b'; C: C | 'a';")
            clock = core.StepClock(200_000).start()
            surfaced = "none"
            try:
                create_table(g)
            except core.StepBudgetExceeded:
                surfaced = "StepBudgetExceeded"
            except Exception as e:
                surfaced = type(e).__name__
            clock.stop()
            return [surfaced, clock.exceeded]

        st, r = core.fork_call(child4, timeout=60)
        expect(st == "ok" and r[1] is True,
               f"non-terminating table construction is stopped by the step budget (surfaced as {r})")

        # 5. ddmin
        got = core.ddmin(list(range(20)), lambda xs: 3 in xs and 17 in xs)
        expect(got == [3, 17], "ddmin finds the 2-element core")
    finally:
        shutil.rmtree(base, ignore_errors=True)
    return 1 if fails else 0


def main(args):
    if args.what == "seeded":
        return seeded(args)
    if args.what == "harness":
        return harness(args)
    if args.what == "benign":
        return benign(args)
    rc = 0
    if args.what in ("determinism", "all"):
        rc |= determinism(args)
    if args.what in ("sensitivity", "all"):
        rc |= sensitivity(args)
    return rc
