"""Self-tests of the machinery.

determinism: the same (VERIF_SEED, run indices) give identical per-run event-log
  digests with 1 / 5 / 16 workers and under other PYTHONHASHSEED values for the
  harness process (fresh interpreters).
sensitivity: every patch in /verif/mutants (index.json) is applied to a scratch
  copy of parglare under /dev/shm and the named check must report a VIOLATION
  (expect=violation) or stay silent (expect=silent: property-preserving
  counter-mutants).
"""

import json
import os
import shutil
import subprocess
import sys
import time

from . import core


def _run_check(prop, runs, env_extra, extra_args=()):
    scratch = os.path.join(core.SHM, f"pgsim-selftest-{os.getpid()}-{time.monotonic_ns()}")
    os.makedirs(scratch)
    env = dict(os.environ)
    env.update(env_extra)
    env["PGSIM_EVIDENCE_DIR"] = scratch
    env["PGSIM_REPLAY_DIR"] = os.path.join(scratch, "replays")
    env.pop("PYTHONHASHSEED", None)
    cmd = [sys.executable, os.path.join(core.VERIF_DIR, "check"), prop, "--runs", str(runs),
           *extra_args]
    r = subprocess.run(cmd, capture_output=True, text=True, env=env, timeout=3000)
    ev = None
    p = os.path.join(scratch, f"{prop}.json")
    if os.path.exists(p):
        with open(p) as f:
            ev = json.load(f)
    shutil.rmtree(scratch, ignore_errors=True)
    return r, ev


def determinism(args):
    props = [p.strip().upper() for p in args.props.split(",") if p.strip()]
    bad = 0
    for prop in props:
        variants = [
            {"PGSIM_WORKERS": "16", "PGSIM_HASHSEED": "0"},
            {"PGSIM_WORKERS": "16", "PGSIM_HASHSEED": "0"},
            {"PGSIM_WORKERS": "1", "PGSIM_HASHSEED": "0"},
            {"PGSIM_WORKERS": "5", "PGSIM_HASHSEED": "1"},
            {"PGSIM_WORKERS": "16", "PGSIM_HASHSEED": "2"},
            {"PGSIM_WORKERS": "7", "PGSIM_HASHSEED": "3"},
        ]
        extra = ["--no-sweep"] if prop == "C12" else []
        digests = []
        for v in variants:
            r, ev = _run_check(prop, args.runs, v, extra)
            if ev is None:
                print(f"determinism {prop} {v}: no evidence, exit={r.returncode}\n{r.stdout[-2000:]}")
                bad += 1
                digests.append(None)
                continue
            digests.append(ev["coverage"]["batch_digest"])
            print(f"determinism {prop} {v}: exit={r.returncode} digest={digests[-1]} "
                  f"wall={ev['wall_s']}s")
        if len(set(digests)) != 1:
            print(f"DETERMINISM-FAIL {prop}: {digests}")
            bad += 1
        else:
            print(f"determinism {prop}: OK ({args.runs} runs x {len(variants)} configurations)")
    return 1 if bad else 0


def sensitivity(args):
    with open(os.path.join(core.VERIF_DIR, "mutants", "index.json")) as f:
        index = json.load(f)
    base = os.path.join(core.SHM, f"pgsim-mut-{os.getpid()}")
    shutil.rmtree(base, ignore_errors=True)
    bad = 0
    results = []
    for m in index:
        if args.only and args.only not in m["name"]:
            continue
        d = os.path.join(base, m["name"])
        os.makedirs(d)
        try:
            shutil.copytree(os.path.join("/repo", "parglare"), os.path.join(d, "parglare"),
                            ignore=shutil.ignore_patterns("__pycache__"))
            patch = os.path.join(core.VERIF_DIR, "mutants", m["name"] + ".patch")
            r = subprocess.run(["patch", "-p1", "-s", "-d", d, "-i", patch],
                               capture_output=True, text=True)
            if r.returncode != 0:
                print(f"sensitivity {m['name']}: PATCH DOES NOT APPLY\n{r.stdout}{r.stderr}")
                bad += 1
                continue
            t0 = time.monotonic()
            extra = list(m.get("args", []))
            r, ev = _run_check(m["property"], m.get("runs", 2000), {"PARGLARE_SRC": d}, extra)
            dt = time.monotonic() - t0
            got = {0: "silent", 1: "violation"}.get(r.returncode, f"exit{r.returncode}")
            ok = got == m["expect"]
            results.append({"name": m["name"], "property": m["property"], "expect": m["expect"],
                            "got": got, "ok": ok, "wall_s": round(dt, 1)})
            print(f"sensitivity {m['name']:40s} {m['property']} expect={m['expect']:9s} got={got:9s} "
                  f"{'OK' if ok else 'MISS'} {dt:.1f}s")
            if not ok:
                bad += 1
                print(r.stdout[-1500:])
        finally:
            shutil.rmtree(d, ignore_errors=True)
    shutil.rmtree(base, ignore_errors=True)
    core.write_json(os.path.join(core.VERIF_DIR, "mutants", "last_results.json"), results)
    return 1 if bad else 0


def seeded(args):
    """Every change under /verif/seeded (written by independent sub-agents) must
    be reported by the QUICK tier of the check of its property."""
    import glob

    base = os.path.join(core.SHM, f"pgsim-seeded-{os.getpid()}")
    shutil.rmtree(base, ignore_errors=True)
    bad = 0
    results = []
    for mp in sorted(glob.glob(os.path.join(core.VERIF_DIR, "seeded", "*", "meta.json"))):
        with open(mp) as f:
            m = json.load(f)
        if args.only and args.only not in m["id"]:
            continue
        d = os.path.join(base, m["id"])
        os.makedirs(d)
        try:
            shutil.copytree(os.path.join("/repo", "parglare"), os.path.join(d, "parglare"),
                            ignore=shutil.ignore_patterns("__pycache__"))
            patch = os.path.join(os.path.dirname(mp), "patch.diff")
            r = subprocess.run(["patch", "-p1", "-s", "-d", d, "-i", patch],
                               capture_output=True, text=True)
            if r.returncode != 0:
                print(f"seeded {m['id']}: PATCH DOES NOT APPLY\n{r.stdout}{r.stderr}")
                bad += 1
                continue
            for prop in m["caught_by"]:
                t0 = time.monotonic()
                scratch = os.path.join(base, "out")
                env = dict(os.environ)
                env.update({"PARGLARE_SRC": d, "PGSIM_EVIDENCE_DIR": scratch,
                            "PGSIM_REPLAY_DIR": os.path.join(scratch, "replays")})
                env.pop("PYTHONHASHSEED", None)
                r = subprocess.run([sys.executable, os.path.join(core.VERIF_DIR, "check"), prop,
                                    "--tier", "quick"], capture_output=True, text=True, env=env,
                                   timeout=3000)
                dt = time.monotonic() - t0
                ok = r.returncode == 1 and "VIOLATION property=" in r.stdout
                results.append({"id": m["id"], "check": prop, "exit": r.returncode, "ok": ok,
                                "wall_s": round(dt, 1)})
                print(f"seeded {m['id']:8s} {prop} quick: exit={r.returncode} "
                      f"{'CAUGHT' if ok else 'MISSED'} {dt:.1f}s")
                if not ok:
                    bad += 1
                    print(r.stdout[-800:])
        finally:
            shutil.rmtree(d, ignore_errors=True)
    shutil.rmtree(base, ignore_errors=True)
    core.write_json(os.path.join(core.VERIF_DIR, "seeded", "last_results.json"), results)
    return 1 if bad else 0


def main(args):
    if args.what == "seeded":
        return seeded(args)
    rc = 0
    if args.what in ("determinism", "all"):
        rc |= determinism(args)
    if args.what in ("sensitivity", "all"):
        rc |= sensitivity(args)
    return rc
