"""Entry point: check <ID> [--tier quick|thorough] | replay <file> | selftest ..."""

import argparse
import json
import os
import subprocess
import sys
import time

from . import core


def _tier(args):
    return args.tier or os.environ.get("VERIF_TIER") or "quick"


def cmd_check(args):
    prop = args.prop.upper()
    tier = _tier(args)
    vseed = core.verif_seed()
    if sys.version_info < (3, 12):
        print("HARNESS-ERROR: Python >= 3.12 required (sys.monitoring step clock)")
        return 2
    core.import_parglare()
    core.sweep_stale_scratch()
    if tier == "thorough":
        core.POOL_WALL["value"] = 6 * 3600.0
    mod = _module(prop)
    t0 = time.monotonic()
    print(f"# pgsim property={prop} tier={tier} VERIF_SEED={vseed} "
          f"tree={core.tree_id()} src={core.PARGLARE_SRC} workers={core.n_workers()}")
    sys.stdout.flush()
    try:
        result = mod.check(tier, vseed, args)
    except core.HarnessTimeout as e:
        print(f"HARNESS-TIMEOUT: {e}")
        return 2
    except core.HarnessError as e:
        print(f"HARNESS-ERROR: {e}")
        return 2
    wall = time.monotonic() - t0
    ev = result["evidence"]
    ev.setdefault("property_id", prop)
    ev["tier"] = tier
    ev["seed"] = vseed
    ev["wall_s"] = round(wall, 2)
    ev["violations"] = len(result["violations"])
    cov = ev["coverage"]
    runs = cov.get("runs", cov.get("evaluations", 0))
    cov["runs_per_hour"] = int(runs / wall * 3600) if wall > 0 else 0
    cov["tree_id"] = core.tree_id()
    cov["parglare_src"] = core.PARGLARE_SRC
    if not os.environ.get("PGSIM_NO_EVIDENCE"):
        core.write_json(core.evidence_path(prop), ev)
    for line in result.get("known", []):
        print(line)
    for v in result["violations"]:
        print(f"VIOLATION property={prop} replay={v['replay']}")
        if v.get("summary"):
            print("#   " + v["summary"])
    if result.get("harness_problems"):
        for h in result["harness_problems"][:5]:
            print("HARNESS-ERROR: " + h.replace("\n", "\n#   "))
        # a replay-confirmed violation stands whatever else went wrong in other runs
        if not result["violations"]:
            return 2
    print(f"# done: {runs} runs, {len(result['violations'])} violation(s), {wall:.1f}s")
    return 1 if result["violations"] else 0


def _module(prop):
    if prop == "C12":
        from . import c12_check as m
    elif prop == "C15":
        from . import c15_check as m
    elif prop == "C16":
        from . import c16_check as m
    elif prop == "C11":
        from . import c11_check as m
    else:
        raise SystemExit(f"unknown property {prop}")
    return m


def cmd_replay(args):
    with open(args.file) as f:
        rp = json.load(f)
    core.import_parglare()
    mod = _module(rp["property"])
    try:
        failed, info = mod.replay(rp)
    except core.HarnessError as e:
        print(f"HARNESS-ERROR: {e}")
        return 2
    print(json.dumps(info, indent=1, sort_keys=True, default=str))
    if failed:
        print(f"REPLAY-FAILS property={rp['property']} file={args.file}")
        return 1
    print(f"REPLAY-PASSES property={rp['property']} file={args.file}")
    return 0


def confirm_replay(path):
    """Re-execute a replay file in a fresh process; True iff it fails again."""
    env = dict(os.environ)
    r = subprocess.run(
        [sys.executable, os.path.join(core.VERIF_DIR, "check"), "replay", path],
        capture_output=True, text=True, env=env, timeout=600,
    )
    return r.returncode == 1


def cmd_selftest(args):
    from . import selftest

    return selftest.main(args)


def main(argv=None):
    core.ensure_hashseed()
    ap = argparse.ArgumentParser(prog="check")
    sub = ap.add_subparsers(dest="cmd")
    for name in ("C11", "C12", "C15", "C16"):
        p = sub.add_parser(name)
        p.set_defaults(prop=name, fn=cmd_check)
        p.add_argument("--tier", choices=["quick", "thorough"])
        p.add_argument("--runs", type=int)
        p.add_argument("--first", type=int, default=0)
        p.add_argument("--no-sweep", action="store_true")
    p = sub.add_parser("replay")
    p.add_argument("file")
    p.set_defaults(fn=cmd_replay)
    p = sub.add_parser("selftest")
    p.add_argument("what", choices=["determinism", "sensitivity", "seeded", "benign", "harness", "all"])
    p.add_argument("--props", default="C11,C12,C15,C16")
    p.add_argument("--runs", type=int, default=200)
    p.add_argument("--only")
    p.set_defaults(fn=cmd_selftest)
    args = ap.parse_args(argv)
    if not args.cmd:
        ap.print_help()
        return 2
    return args.fn(args)
