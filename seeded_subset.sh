#!/bin/sh
# usage: seeded_subset.sh <id-substring>...   -- the seeded self-test restricted to ids containing a substring
for s in "$@"; do
  ./check selftest seeded --only "$s" | grep --line-buffered "^seeded"
done
echo "== seeded subset done"
